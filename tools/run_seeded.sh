#!/bin/bash
# tools/run_seeded.sh <seeded-dir> [CHECK...]   apply seeded/<dir>/patch.diff to /repo, run the checks (quick), undo.
# Prints one line per check: DETECTED / MISSED / ERROR. Never leaves /repo modified.
set -u
HERE="$(cd "$(dirname "$0")/.." && pwd)"
D="$1"; shift
P="$HERE/seeded/$D/patch.diff"
REPO="${VERIF_REPO:-/repo}"
[ -f "$P" ] || { echo "no $P"; exit 2; }
if ! git -C "$REPO" diff --quiet; then echo "$REPO has uncommitted changes"; exit 2; fi
git -C "$REPO" apply "$P" || { echo "$D - ERROR(patch): patch does not apply to the current tree"; exit 2; }
trap 'git -C "$REPO" checkout -- . ; git -C "$REPO" clean -fdq -- mla/tests 2>/dev/null' EXIT
CHECKS="$*"
[ -n "$CHECKS" ] || CHECKS=$(python3 -c "import json;print(' '.join(json.load(open('$HERE/seeded/$D/meta.json')).get('run_checks',[])))")
for c in $CHECKS; do
    out=$("$HERE/check" "$c" "${TIER:-quick}" 2>&1); code=$?
    case $code in
        1) echo "$D $c DETECTED: $(echo "$out" | grep -m1 -A1 '^VIOLATION' | tail -1 | cut -c1-220)";;
        0) echo "$D $c MISSED";;
        *) echo "$D $c ERROR($code): $(echo "$out" | tail -2 | cut -c1-200)";;
    esac
done
