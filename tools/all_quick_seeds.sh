#!/bin/bash
# run every quick check under several seeds (false-alarm hunt on the unchanged tree)
HERE="$(cd "$(dirname "$0")/.." && pwd)"
export VERIF_REPO="${VP_RUN_REPO:-${VERIF_REPO:-/repo}}"
for seed in ${SEEDS:-2 3 4 5}; do
  for c in C01 C02 C03 C04 C05 C06 C07 C08 C09 C10 C11 C12 C13 C14 C15 C16 C17 C20; do
    out=$(VERIF_SEED=$seed "$HERE/check" $c quick 2>&1); code=$?
    echo "seed=$seed $c exit=$code :: $(echo "$out" | grep -v KNOWN | tail -1 | cut -c1-200)"
    [ $code -ne 0 ] && echo "$out" | grep -A1 VIOLATION | head -8
  done
done
