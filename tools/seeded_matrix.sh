#!/bin/bash
# Run every seeded change against the checks named in its meta.json (or all given as args); prints DETECTED/MISSED.
# Meant for `vp run --with-repo -- bash tools/seeded_matrix.sh` (uses $VP_RUN_REPO) or by hand on /repo.
HERE="$(cd "$(dirname "$0")/.." && pwd)"
export VERIF_REPO="${VP_RUN_REPO:-${VERIF_REPO:-/repo}}"
PATTERN="${1:-*}"
for d in "$HERE"/seeded/$PATTERN/; do
    n=$(basename "$d")
    [ -f "$d/patch.diff" ] || continue
    "$HERE/tools/run_seeded.sh" "$n"
done
