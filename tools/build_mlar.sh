#!/bin/bash
# Build the mlar binary from /repo's current working tree (no cfg: the shipped CLI) into /verif/.build/mlar-target
set -u
HERE="$(cd "$(dirname "$0")/.." && pwd)"
mkdir -p "$HERE/.build"
( cd "${VERIF_REPO:-/repo}" && CARGO_TARGET_DIR="$HERE/.build/mlar-target" cargo build --offline -p mlar --config 'profile.dev.package."*".opt-level=3' --config 'profile.dev.opt-level=1' --config 'profile.dev.debug=false' 2>"$HERE/.build/build_mlar.log" ) || {
    grep -E "^error" -A12 "$HERE/.build/build_mlar.log" | head -40
    echo "HARNESS-ERROR: building mlar from /repo failed (see .build/build_mlar.log)"
    exit 2
}
