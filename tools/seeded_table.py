#!/usr/bin/env python3
"""Regenerate the table at the end of DESIGN.md §13 from /verif/seeded/*/meta.json"""
import json, glob, os
rows = []
for p in sorted(glob.glob('/verif/seeded/*/meta.json')):
    d = os.path.basename(os.path.dirname(p)); m = json.load(open(p))
    det = m.get('detected_by', {})
    what = m['what'][:160].replace('|', '/')
    def verdict(v):
        v = v.lower()
        if v.startswith('thorough'):
            return 'detected by the THOROUGH tier only'
        return 'missed' if v.startswith('missed') else 'DETECTED'
    checks = ', '.join('%s: %s' % (k, verdict(v)) for k, v in det.items())
    b = m['breaks'] if isinstance(m['breaks'], str) else '/'.join(m['breaks'])
    rows.append('| %s | %s | %s | %s |' % (d, b, what, checks))
table = '| seeded change | breaks | what | checks (quick tier) |\n|---|---|---|---|\n' + '\n'.join(rows) + '\n'
s = open('/verif/DESIGN.md').read()
i = s.index('| seeded change | breaks | what | checks (quick tier) |')
open('/verif/DESIGN.md', 'w').write(s[:i] + table)
print(len(rows), 'rows')
