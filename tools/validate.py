#!/usr/bin/env python3
"""Validate MANIFEST.json and every evidence file against the schemas (run with python3-vt)."""
import json, sys, glob, jsonschema
ms = json.load(open('/root/.vp/MANIFEST.schema.json')); es = json.load(open('/root/.vp/EVIDENCE.schema.json'))
m = json.load(open('/verif/MANIFEST.json')); jsonschema.validate(m, ms)
ok = True
for c in m['checks']:
    try:
        jsonschema.validate(json.load(open(c['evidence_file'])), es)
    except Exception as e:
        ok = False; print('EVIDENCE', c['property_id'], str(e)[:300])
props = [json.loads(l)['id'] for l in open('/verif/properties.jsonl')]
claimed = {c['property_id'] for c in m['checks']}; na = {n['property_id'] for n in m.get('not_applicable', [])}
print('claimed', sorted(claimed)); print('n/a', sorted(na)); print('unlisted', sorted(set(props) - claimed - na))
print('ok' if ok else 'FAIL'); sys.exit(0 if ok else 1)
