#!/bin/bash
# run every registered thorough command once; print time and last line
HERE="$(cd "$(dirname "$0")/.." && pwd)"
export VERIF_REPO="${VP_RUN_REPO:-${VERIF_REPO:-/repo}}"
for c in ${*:-C01 C02 C03 C04 C05 C06 C07 C08 C09 C10 C11 C12 C13 C14 C15 C16 C17 C20}; do
    s=$(date +%s); out=$("$HERE/check" $c thorough 2>&1); code=$?; e=$(date +%s)
    echo "$c thorough exit=$code $((e-s))s :: $(echo "$out" | grep -v KNOWN | tail -1 | cut -c1-230)"
    [ $code -ne 0 ] && echo "$out" | grep -A1 VIOLATION | head -6
done
