#!/usr/bin/env python3
"""Writes /verif/MANIFEST.json from the table below (single source of truth for the registered checks)."""
import json, os
HERE = os.path.dirname(os.path.dirname(os.path.abspath(__file__)))
PROPS = [json.loads(l) for l in open(os.path.join(HERE, 'properties.jsonl'))]

TRUST = "Trusts: the reference models in /verif/sim/src (abstract map model; refmla format model written from FORMAT.md on top of the aes-gcm, hkdf, x25519-dalek, brotli, sha2 crates), the simulated seams, and that the scaled variants (same source files, smaller CHUNK/BLOCK/buffer constants with the production divisibility relations, built through hook H1) are representative; production-size runs use the prod (no cfg) and prodv builds. Sampled evidence, not proof."

CHECKS = {
 "C01": ("exploration", "deterministic simulation: seeded workload search vs abstract map model, fault-free configuration; exhaustive length sweep on the s0 variant",
         "Seeded search over valid writer histories on four builds of the same library source, written to a simulated sink and read back through a simulated source, judged against an abstract map model (listing, size, bytes, stored SHA-256); every content length 0..4*BLOCK enumerated on s0; stream ends solved onto real chunk/block edges at production constants; counts one or two orders above usual (1000 recipients, 300 files, 65537 runs, 80000 appends into one block; thorough: files longer than 2^32 bytes)."),
 "C02": ("fault_enumeration", "deterministic simulation: crash-point enumeration (sink death after every n bytes) + repair + read-back vs model",
         "For each seeded workload every truncation length of the stored image (all n on scaled variants, anchor windows + sample at production size) is repaired in both modes through the simulated source under a step budget; soundness clauses (no panic, Ok, opens, original names, prefix, unfinished reported, end-of-data only if complete) judged against the abstract model. Exhaustive in the crash point for the workloads visited, sampled in the workload; crash points searched by bisection onto the 8 MiB repair-buffer edge at production constants; archives of 33000 files, of the independent writer, repaired into layered outputs and through short-read sources."),
 "C03": ("fault_enumeration", "deterministic simulation: stored-byte fault enumeration (every bit, all chunk-level edits) + seeded read histories vs model",
         "Every single-bit flip of every byte (small images), all chunk swaps/moves/duplications/deletions/splices from a second archive, tail edits; a seeded read history on each altered image must never return a byte or a name that differs from the original. Exhaustive in the fault for the images visited; also compound faults (blanked tags with payload edits), transplants between chunks, and forgeries built with the archive key whose tag is then damaged. One recorded finding: a cut on a chunk edge is an authentic shorter stream (format v1 has no authenticated end)."),
 "C04": ("fault_enumeration", "deterministic simulation: per-chunk corruption enumeration with adversarial block-lookalike content; model-based and metamorphic oracle on authenticated repair",
         "For every chunk index payload/tag corruption, in-chunk truncation and chunk-level edits; authenticated repair must output nothing beyond what the contiguously verified chunks carry (independent AES-GCM model + repair of the stream cut before the failure) and be a prefix of unauthenticated repair; production-size archives of 48..80 chunks, two damaged chunks at once, sources that return short reads or report Interrupted (safety clauses only), or fail once with a transient error at a sampled or swept read call (what was written must still be prefixes). Two recorded findings (chunk 0 unauthenticated; compression + corruption ordering)."),
 "C05": ("fault_enumeration", "deterministic simulation: crash-point sweep, completeness on intact images, monotonicity over consecutive cuts, ground truth from the format model",
         "Same sweep as C02 with the completeness clause at n=len, monotonicity between consecutive cut lengths and, without compression, a lower bound computed by the independent format model from the bytes present / in complete chunks."),
 "C06": ("exploration", "deterministic simulation used as history generator; differential check against an independent implementation of FORMAT.md (both directions) and of AES-GCM call splits",
         "Library images decoded by the independent format model with the documented constants; foreign-writer archives (its own choices wherever the description leaves one: ids, index form, empty blocks, trailing empty compressed block, up to 1000 recipients) read by the library; incremental AES-GCM vs the aes-gcm crate for exhaustive 2-splits up to 80 bytes and seeded k-splits; historical sample archive."),
 "C07": ("exploration", "deterministic simulation with the real OS entropy source: repeated identical histories in-process and in freshly spawned processes; sink monitor for plaintext; key-list matrix",
         "Identical workloads are written 8 times in-process (three of them each on a thread of its own), in a forked copy of the worker and in two fresh processes on the unmodified prod build (and prodv with hook H2 not engaged): the writer configuration reaching its final state by five routes of its builder (a layer disabled and enabled again, keys first, keys in two calls...): keys, nonces and ephemeral public keys pairwise distinct; no content marker or name in the stored bytes after the header; every recipient opens at any key-list position, no other key does."),
 "C08": ("fault_enumeration", "deterministic simulation: structured fault injection at all three layers (stored bytes, compressed stream, file-layer stream re-wrapped with valid encryption), crafted hostile footers/size tables, operation histories continuing after errors; process isolation, step budget, counting allocator",
         "Every single bit flip and cut of one small archive plus seeded k<=3 structured faults (boundary values, values derived from the layers' position arithmetic, sum-preserving pairs of fields) and hand-built hostile streams (incl. runs of thousands of empty units); each operation of a history that continues after errors must return Ok/Err: no panic, no worker death (stack overflow, abort), seam-call budget, heap ceiling proportional to the input."),
 "C09": ("exploration", "deterministic simulation: exhaustive short call histories + seeded long ones vs a call-validation model; completion, read-back, repair and linear extraction of the result",
         "All call sequences of length 1..3 (quick) / 1..4 (thorough) over an 19-symbol alphabet of valid and invalid writer calls on s0, plus seeded sequences of length 5..40 on all variants/layers; the library must refuse exactly the calls the model refuses, never accept a short source, and the finished archive must read back to the model that ignored refused calls and, with the randomness pinned, be byte-identical to the one written from the accepted calls only."),
 "C10": ("exploration", "deterministic simulation: seeded reader operation histories on one reader vs per-file cursor model",
         "Histories of 20..200 list/hash/open/read/abandon operations with boundary-biased buffer sizes on interleaved multi-chunk/multi-block archives; every read (read, read_vectored, exact stops on stream edges) must equal a per-file cursor over the model; sweep-and-revisit histories over up to 4200 files; archives of the independent writer."),
 "C11": ("exploration", "deterministic simulation: seek/read histories on each layer reader stack vs std::io::Cursor over the layer plaintext from the independent format model; exhaustive length residues on scaled variants",
         "Layer stacks built as `mlar info` builds them; histories of seeks from start/current/end within [0,len] and reads; positions and bytes must equal a cursor; content length swept so that every residue modulo CHUNK and BLOCK occurs; plaintexts beyond 2^32 bytes (period 251) with jumps around 2^31 and 2^32; a COMPRESSED stream beyond 2^32 bytes (one incompressible block replayed a thousand times through a generated source); short-read and interrupting sources, the refused call made again."),
 "C12": ("exploration", "deterministic simulation: linear extraction into seeded subsets through splitting/interrupting sinks vs model; foreign-writer images without end marker; failing sink",
         "Linear extraction of library archives into every kind of subset under sink schedules must deliver exactly the model bytes; marker-less / cut-in-block archives built by the format model must give Err; a sink that stops taking bytes (error, zero-accept, broken pipe) must give Err; a content block longer than 2^32 bytes; archives of the independent writer; short-read sources."),
 "C13": ("exploration", "deterministic simulation: seeded transfer schedules (short writes/reads, Interrupted) at every seam vs the memory run",
         "Every workload is run once with complete transfers and once under a seeded schedule on the writer sink (1 byte, 1..n, Interrupted bursts), piece sources, reader/repair source and repair output sink; images, read-back (caller buffers from 1 byte to 1 MiB) and repair results must equal the memory run; Interrupted bursts of up to 40, also on flush."),
 "C14": ("fault_enumeration", "deterministic simulation: flush = sync, sink death at/after every flush point = crash, repair = recovery, vs model of bytes appended before the flush",
         "For every flush of every seeded history the sink dies right after the flush returned and at later points before the next one; repair must recover at least what was appended before the flush (authenticated mode: what lies in complete chunks) and only prefixes; flushes solved onto exactly full blocks / chunks at production constants; thousands of flushes inside one block."),
 "C15": ("exploration", "deterministic simulation with a counting allocator seam: generator source -> counting/spilling sink, repair and linear extraction from the spill file; peak live heap vs ceiling and vs amount streamed",
         "On the unmodified prod build a generator streams two sizes (16/64 MiB quick, 64 MiB..1 GiB thorough) through every layer set; peak live heap of write, repair and linear extraction must stay under fixed ceilings and not grow with the bytes streamed; growth with files x runs bounded linearly; also authenticated repair, linear extraction that skips everything, small records with a flush after each, two files fed alternately."),
 "C16": ("exploration", "simulation of the mlar process on a private scratch tree: generated member-name grammar x command histories, snapshot diff of everything outside the output directory",
         "Archives with member names from a path grammar ('..', '.', empty, long, unicode, absolute, trailing separators) extracted by the real mlar binary in whole/name/glob forms with relative and absolute output directories; nothing outside the output directory may change; collision-free members must be extracted exactly. The environment dimension is the pre-existing tree: one run in five starts with symbolic links already in the output directory (to a directory / a file outside, to siblings named like the output directory, to a directory inside, dangling links, a link loop); the output directory argument comes in eight forms (trailing '/', '.', './out', 'sub/../out', a symlink to it, a working directory behind a symlink). Weakest fit, said in DESIGN.md."),
 "C17": ("exploration", "simulation of mlar command pipelines on generated file trees vs the tree as model; key-fault injection",
         "create (files / directory / stdin forms) then list, list -vv, cat, both extract forms, to-tar and seeded repair/convert chains across layer and key choices must all return the input files' exact bytes, names, sizes and hashes; wrong, missing or superfluous keys must fail without output content; trees with links to files and directories, crowds of files, names and sizes at tar's and the size formatter's boundaries, sibling inputs named like the directory."),
 "C20": ("exploration", "deterministic simulation of the C entry points linked as an rlib: simulated write/read/seek/file callbacks with seeded acceptance schedules and failure injection; null and cleared-handle call histories",
         "Writer histories expressed through the C interface with splitting write callbacks must produce archives the Rust reader reads back to the model; extraction through the C interface must hand each accepted writer the exact bytes; failing callbacks (three styles, transient or persistent), a missing key, NULL and interface-cleared handles must give a non-success status without killing the process; archives written by the Rust library with other layer sets are extracted through C as well."),
}
NOT_APPLICABLE = {
 "C18": "pure parsing/generation functions of a byte string: no state, stream, schedule, fault or history for a simulator to own (input generation only)",
 "C19": "pure key-derivation function of (seed | parent key, paths): a known-answer/differential computation with no execution history, fault or interleaving",
}

checks = []
for p in PROPS:
    pid = p['id']
    if pid in CHECKS:
        level, tech, text = CHECKS[pid]
        checks.append({
            "property_id": pid, "quick_cmd": "./check %s quick" % pid, "thorough_cmd": "./check %s thorough" % pid,
            "evidence_file": "/verif/evidence/%s.json" % pid, "replay_cmd_template": "./check --replay {path}", "engine": "mlasim",
            "level_claimed": {"category": level, "text": text, "design_ref": "DESIGN.md §7 " + pid},
            "level_note": TRUST, "technique": tech})
na = []
for p in PROPS:
    pid = p['id']
    if pid in CHECKS:
        continue
    na.append({"property_id": pid, "reason": NOT_APPLICABLE.get(pid, "check not built yet (planned, DESIGN.md §7 %s); not claimed until it is registered" % pid)})
m = {"version": 1, "setup_cmd": "./setup.sh",
     "hooks": {"guard": "mla_verif",
               "enable": "rustc cfg `mla_verif`, printed (with the MLA_VERIF_* size constants) by the build.rs of the shadow packages generated under /verif/sim/gen, which compile /repo/mla/src/lib.rs under another package name; never set through RUSTFLAGS; /repo's manifests and lock file are untouched. The `prod` shadow package is built without the cfg.",
               "baseline_off_cmd": "cd /repo && cargo test --workspace --no-fail-fast --offline",
               "source_commits": ["0d34012", "4a1e08c", "382a621", "2b63855"], "add_only": True},
     "engines": [{"name": "mlasim", "path": "/verif/sim", "serves_properties": sorted(CHECKS),
                  "kind_free_text": "single-process deterministic simulator: one seeded PRNG decides workload, transfer schedules at the Write/Read/Seek seams, crash points and stored-byte faults; worker processes with static run assignment; shrinking; replay files; evidence"}],
     "checks": checks, "not_applicable": na,
     "notes": "Genuine defects found are listed in /verif/known_findings.json (fixed: repaired by 'fix:' commits in /repo; open: recorded, printed as KNOWN-FINDING). Exit codes: 0 held, 1 VIOLATION, 2 harness/build error."}
json.dump(m, open(os.path.join(HERE, 'MANIFEST.json'), 'w'), indent=1)
print("claimed:", sorted(CHECKS))
