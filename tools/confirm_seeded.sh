#!/bin/bash
# tools/confirm_seeded.sh <ID> [pkg]  -- independently confirm a sub-agent's seeded change in its scratch worktree /tmp/mut/<ID>:
# suite green with the change, demo fails with it, demo passes without it. Writes /tmp/mut/<ID>-out/confirm.txt
ID="$1"; PKG="${2:-mla}"
W=/tmp/mut/$ID; O=/tmp/mut/$ID-out
export CARGO_TARGET_DIR=$W/target CARGO_NET_OFFLINE=true
cd $W || exit 2
git checkout -q -- . ; git clean -fdq -- mla/tests mlar/tests bindings 2>/dev/null
{
git apply $O/patch.diff || { echo "PATCH-DOES-NOT-APPLY"; exit 1; }
echo "== suite with change"
cargo test -p $PKG --offline 2>&1 | grep -E "^test result|FAILED|failed" | head -8
TD=$PKG/tests
cp $O/demo.rs $TD/seeded_demo.rs
echo "== demo with change (must fail)"
cargo test -p $PKG --offline --test seeded_demo 2>&1 | grep -E "^test result|^test .*(FAILED|ok)$" | head -8
git apply -R $O/patch.diff
echo "== demo without change (must pass)"
cargo test -p $PKG --offline --test seeded_demo 2>&1 | grep -E "^test result|^test .*(FAILED|ok)$" | head -8
rm -f $TD/seeded_demo.rs
} > $O/confirm.txt 2>&1
rm -rf $W/target
cat $O/confirm.txt
