#!/bin/bash
# setup_cmd: build the simulator (and the mlar binary used by C16/C17) from files on disk only (offline)
set -e
cd "$(dirname "$0")"
./check --build
./tools/build_mlar.sh
echo "setup: simulator and mlar built"
