#!/bin/bash
# setup_cmd: build the simulator from files on disk only (offline), short determinism self-test
set -e
cd "$(dirname "$0")"
./check --build
echo "setup: simulator built"
