// Compiled once per library variant (see sut.rs): `mla` is the variant's crate.
use crate::model::{key_bytes, ArcCfg, WOp};
use crate::seams::{PieceSource, Sched, SimSink, SimSource};
use crate::sut::{guard, LOp, LRes, LayerOut, LinearOut, ROp, RRes, ReadCfg, ReadOut, RepStatus, RepairOut, Sut, VariantConsts, WriteOut};
use mla::config::{ArchiveReaderConfig, ArchiveWriterConfig};
use mla::errors::FailSafeReadError;
use mla::layers::compress::CompressionLayerReader;
use mla::layers::encrypt::EncryptionLayerReader;
use mla::layers::raw::RawLayerReader;
use mla::layers::traits::LayerReader;
use mla::{ArchiveFailSafeReader, ArchiveHeader, ArchiveReader, ArchiveWriter, Layers};
use std::collections::{BTreeMap, HashMap};
use std::io::{Read, Seek, SeekFrom, Write};
use std::rc::Rc;
use x25519_dalek::{PublicKey, StaticSecret};

pub struct V;

fn writer_config(cfg: &ArcCfg) -> Result<ArchiveWriterConfig, String> {
    let mut c = ArchiveWriterConfig::new();
    let want = Layers::from_bits_truncate(cfg.layers);
    let pubs: Vec<PublicKey> = if cfg.enc() { (0..cfg.recipients).map(|i| PublicKey::from(&StaticSecret::from(key_bytes(cfg.key_seed, i)))).collect() } else { Vec::new() };
    let route = crate::seams::cfg_route();
    if route == 4 && cfg.enc() {
        // keys before layers
        c.add_public_keys(&pubs);
    }
    match route {
        1 => {
            // layers enabled one by one
            if cfg.comp() {
                c.enable_layer(Layers::COMPRESS);
            }
            if cfg.enc() {
                c.enable_layer(Layers::ENCRYPT);
            }
        }
        2 => {
            // each wanted layer disabled and enabled again
            c.set_layers(want);
            c.disable_layer(Layers::ENCRYPT);
            c.disable_layer(Layers::COMPRESS);
            c.enable_layer(want);
        }
        3 => {
            // everything on, everything off, then the wanted set
            c.set_layers(Layers::DEFAULT);
            c.disable_layer(Layers::DEFAULT);
            c.set_layers(want);
        }
        _ => {
            c.set_layers(want);
        }
    }
    if cfg.comp() {
        c.with_compression_level(cfg.level).map_err(|e| format!("{e:?}"))?;
    }
    if cfg.enc() && route != 4 {
        if route == 1 && pubs.len() >= 2 {
            // keys in two calls
            c.add_public_keys(&pubs[..1]);
            c.add_public_keys(&pubs[1..]);
        } else {
            c.add_public_keys(&pubs);
        }
    }
    Ok(c)
}

fn reader_config(rcfg: &ReadCfg) -> ArchiveReaderConfig {
    let mut c = ArchiveReaderConfig::new();
    let keys: Vec<StaticSecret> = rcfg.key_bytes().into_iter().map(StaticSecret::from).collect();
    if !keys.is_empty() {
        c.add_private_keys(&keys);
    }
    c
}

fn source(image: &Rc<Vec<u8>>, rcfg: &ReadCfg) -> SimSource {
    let mut s = match &rcfg.spill_path {
        Some(p) => SimSource::from_file(p, &rcfg.sched, rcfg.budget).expect("spill file"),
        None => SimSource::new(image.clone(), &rcfg.sched, rcfg.budget),
    };
    s.error_at_read = rcfg.error_at_read;
    s.replay = rcfg.replay;
    s
}

fn status_of(e: &FailSafeReadError) -> RepStatus {
    fn name(e: &FailSafeReadError) -> &'static str {
        match e {
            FailSafeReadError::NoError => "NoError",
            FailSafeReadError::UnexpectedEOFOnNextBlock => "UnexpectedEOFOnNextBlock",
            FailSafeReadError::IOErrorOnNextBlock(_) => "IOErrorOnNextBlock",
            FailSafeReadError::ErrorOnNextBlock(_) => "ErrorOnNextBlock",
            FailSafeReadError::ErrorInFile(..) => "ErrorInFile",
            FailSafeReadError::ArchiveFileIDReuse(_) => "ArchiveFileIDReuse",
            FailSafeReadError::FilenameReuse(_) => "FilenameReuse",
            FailSafeReadError::ArchiveFileIDAlreadyClose(_) => "ArchiveFileIDAlreadyClose",
            FailSafeReadError::ContentForUnknownFile(_) => "ContentForUnknownFile",
            FailSafeReadError::EOFForUnknownFile(_) => "EOFForUnknownFile",
            FailSafeReadError::UnfinishedFiles { .. } => "UnfinishedFiles",
            FailSafeReadError::EndOfOriginalArchiveData => "EndOfOriginalArchiveData",
            FailSafeReadError::FailSafeReadInternalError => "FailSafeReadInternalError",
            FailSafeReadError::HashDiffers { .. } => "HashDiffers",
        }
    }
    match e {
        FailSafeReadError::UnfinishedFiles { filenames, stopping_error } => {
            let mut f = filenames.clone();
            f.sort();
            RepStatus { stop: name(stopping_error).to_string(), detail: trim(format!("{stopping_error:?}")), unfinished: Some(f) }
        }
        other => RepStatus { stop: name(other).to_string(), detail: trim(format!("{other:?}")), unfinished: None },
    }
}

fn trim(mut s: String) -> String {
    if s.len() > 300 {
        let mut e = 300;
        while !s.is_char_boundary(e) {
            e -= 1;
        }
        s.truncate(e);
        s.push('…');
    }
    s
}

/// (announced size, source): the source holds `short_by` bytes less, or `extra` bytes more
fn piece(data: &crate::model::Data, src: &crate::model::Src) -> (u64, Box<dyn Read>) {
    if src.stream {
        let seed = match data {
            crate::model::Data::Rand { seed, .. } => Some(*seed),
            _ => None,
        };
        if let crate::model::Data::Period { n, p } = data {
            return (*n as u64, Box::new(crate::seams::GenSource::periodic(*n, *p)));
        }
        return (data.len() as u64, Box::new(crate::seams::GenSource::new(data.len(), seed)));
    }
    let mut bytes = data.bytes();
    let announced = bytes.len() as u64;
    if src.short_by > 0 {
        let keep = bytes.len() - src.short_by.min(bytes.len());
        bytes.truncate(keep);
    } else if src.extra > 0 {
        bytes.extend(std::iter::repeat(0xEE).take(src.extra));
    }
    let end = bytes.len();
    (announced, Box::new(PieceSource::new(Rc::new(bytes), end, &src.sched)))
}

fn es<E: std::fmt::Debug>(e: E) -> String {
    trim(format!("{e:?}"))
}

impl Sut for V {
    fn consts(&self) -> &'static VariantConsts {
        crate::sut::consts_of(VARIANT_NAME)
    }

    fn set_rng_seed(&self, seed: Option<u64>) {
        hook_set_seed(seed);
    }

    fn take_hits(&self) -> BTreeMap<&'static str, u64> {
        hook_take_hits()
    }

    fn write(&self, cfg: &ArcCfg, ops: &[WOp], sink: SimSink) -> WriteOut {
        let mut out = WriteOut { results: Vec::new(), flush_marks: Vec::new(), panic: None, from_config_err: None, enc_params: None };
        hook_set_seed(if cfg.rng_seed != 0 { Some(cfg.rng_seed) } else { None });
        let sink2 = sink.clone();
        let r = guard(|| {
            let wc = match writer_config(cfg) {
                Ok(c) => c,
                Err(e) => {
                    out.from_config_err = Some(e);
                    return;
                }
            };
            if cfg.enc() {
                out.enc_params = Some((*wc.encryption_key(), *wc.encryption_nonce()));
            }
            let mut w = match ArchiveWriter::from_config(sink2.clone(), wc) {
                Ok(w) => w,
                Err(e) => {
                    out.from_config_err = Some(es(e));
                    return;
                }
            };
            let mut ids: HashMap<usize, u64> = HashMap::new();
            for (i, op) in ops.iter().enumerate() {
                let res: Result<u64, String> = match op {
                    WOp::Start { f, name } => match w.start_file(&name.string()) {
                        Ok(id) => {
                            ids.insert(*f, id);
                            Ok(id)
                        }
                        Err(e) => Err(es(e)),
                    },
                    WOp::Append { f, data, src } => {
                        let id = ids.get(f).copied().unwrap_or(u64::MAX - 7);
                        let (announced, ps) = piece(data, src);
                        w.append_file_content(id, announced, ps).map(|()| 0).map_err(es)
                    }
                    WOp::End { f } => {
                        let id = ids.get(f).copied().unwrap_or(u64::MAX - 7);
                        w.end_file(id).map(|()| 0).map_err(es)
                    }
                    WOp::Add { name, data, src } => {
                        let (announced, ps) = piece(data, src);
                        w.add_file(&name.string(), announced, ps).map(|()| 0).map_err(es)
                    }
                    WOp::Flush => match {
                        // a caller that meets an interrupted flush tries again (bounded: the seam's bursts are short)
                        let mut r = w.flush();
                        let mut tries = 0;
                        while tries < 16 && matches!(&r, Err(e) if e.kind() == std::io::ErrorKind::Interrupted) {
                            tries += 1;
                            r = w.flush();
                        }
                        r
                    } {
                        Ok(()) => {
                            out.flush_marks.push((i, sink2.len()));
                            Ok(0)
                        }
                        Err(e) => Err(es(e)),
                    },
                    WOp::Finalize => w.finalize().map(|()| 0).map_err(es),
                    WOp::AppendRaw { id, data } => {
                        let bytes = data.bytes();
                        w.append_file_content(*id, bytes.len() as u64, &bytes[..]).map(|()| 0).map_err(es)
                    }
                    WOp::EndRaw { id } => w.end_file(*id).map(|()| 0).map_err(es),
                };
                out.results.push(res);
            }
        });
        hook_set_seed(None);
        if let Err(p) = r {
            out.panic = Some(p);
        }
        let flags: Vec<u8> = out.results.iter().map(|r| u8::from(r.is_ok())).collect();
        crate::seams::log_obs("write", &flags);
        crate::seams::log_num("write-end", u64::from(out.panic.is_some()), out.flush_marks.len() as u64);
        out
    }

    fn read(&self, image: Rc<Vec<u8>>, rcfg: &ReadCfg, ops: &[ROp]) -> ReadOut {
        let src = source(&image, rcfg);
        let stats = src.stats_handle();
        let mut out = ReadOut { open: Ok(()), results: Vec::new(), panic: None, src: Default::default(), enc_params: None };
        let r = guard(|| {
            let mut rd = match ArchiveReader::from_config(src, reader_config(rcfg)) {
                Ok(r) => r,
                Err(e) => {
                    out.open = Err(es(e));
                    return;
                }
            };
            out.enc_params = rd.config.get_encrypt_parameters();
            let mut i = 0;
            while i < ops.len() {
                match &ops[i] {
                    ROp::List => {
                        let r = match rd.list_files() {
                            Ok(it) => {
                                let mut v: Vec<String> = it.cloned().collect();
                                v.sort();
                                RRes::Names(v)
                            }
                            Err(e) => RRes::Err(es(e)),
                        };
                        out.results.push(r);
                        i += 1;
                    }
                    ROp::Hash { name } => {
                        let r = match rd.get_hash(name) {
                            Ok(Some(h)) => RRes::Hash(h),
                            Ok(None) => RRes::NotFound,
                            Err(e) => RRes::Err(es(e)),
                        };
                        out.results.push(r);
                        i += 1;
                    }
                    ROp::Read { .. } | ROp::ReadAll { .. } | ROp::ReadExact { .. } | ROp::ReadAllDigest { .. } | ROp::ReadVectored { .. } => {
                        out.results.push(RRes::NoFile);
                        i += 1;
                    }
                    ROp::Open { name } => {
                        i += 1;
                        match rd.get_file(name.clone()) {
                            Ok(None) => out.results.push(RRes::NotFound),
                            Err(e) => out.results.push(RRes::Err(es(e))),
                            Ok(Some(mut f)) => {
                                out.results.push(RRes::Opened { size: f.size });
                                // serve the reads that follow on this open file
                                while i < ops.len() {
                                    match &ops[i] {
                                        ROp::Read { n } => {
                                            let mut buf = vec![0u8; *n];
                                            match f.data.read(&mut buf) {
                                                Ok(k) => {
                                                    buf.truncate(k);
                                                    out.results.push(RRes::Bytes(buf));
                                                }
                                                Err(e) => out.results.push(RRes::Err(es(e))),
                                            }
                                            i += 1;
                                        }
                                        ROp::ReadVectored { sizes } => {
                                            let mut bufs: Vec<Vec<u8>> = sizes.iter().map(|n| vec![0u8; *n]).collect();
                                            let r = {
                                                let mut slices: Vec<std::io::IoSliceMut> = bufs.iter_mut().map(|b| std::io::IoSliceMut::new(b)).collect();
                                                f.data.read_vectored(&mut slices)
                                            };
                                            match r {
                                                Ok(k) => {
                                                    let mut all: Vec<u8> = bufs.concat();
                                                    all.truncate(k);
                                                    out.results.push(RRes::Bytes(all));
                                                }
                                                Err(e) => out.results.push(RRes::Err(es(e))),
                                            }
                                            i += 1;
                                        }
                                        ROp::ReadAllDigest { n } => {
                                            use sha2::Digest;
                                            let mut h = sha2::Sha256::new();
                                            let mut len = 0u64;
                                            let mut buf = vec![0u8; (*n).max(1)];
                                            let mut err = None;
                                            loop {
                                                match f.data.read(&mut buf) {
                                                    Ok(0) => break,
                                                    Ok(k) => {
                                                        h.update(&buf[..k]);
                                                        len += k as u64;
                                                    }
                                                    Err(e) => {
                                                        err = Some(es(e));
                                                        break;
                                                    }
                                                }
                                            }
                                            out.results.push(match err {
                                                None => RRes::Digest { len, sha: h.finalize().into() },
                                                Some(e) => RRes::Err(e),
                                            });
                                            i += 1;
                                        }
                                        ROp::ReadExact { total, n } => {
                                            let mut all = Vec::new();
                                            let mut err = None;
                                            while all.len() < *total {
                                                let mut buf = vec![0u8; (*n).max(1).min(*total - all.len())];
                                                match f.data.read(&mut buf) {
                                                    Ok(0) => break,
                                                    Ok(k) => all.extend_from_slice(&buf[..k]),
                                                    Err(e) => {
                                                        err = Some(es(e));
                                                        break;
                                                    }
                                                }
                                            }
                                            out.results.push(match err {
                                                None => RRes::Bytes(all),
                                                Some(e) => RRes::Err(e),
                                            });
                                            i += 1;
                                        }
                                        ROp::ReadAll { n } => {
                                            let mut all = Vec::new();
                                            let mut buf = vec![0u8; (*n).max(1)];
                                            let mut err = None;
                                            loop {
                                                match f.data.read(&mut buf) {
                                                    Ok(0) => break,
                                                    Ok(k) => all.extend_from_slice(&buf[..k]),
                                                    Err(e) => {
                                                        err = Some(es(e));
                                                        break;
                                                    }
                                                }
                                            }
                                            out.results.push(match err {
                                                None => RRes::Bytes(all),
                                                Some(e) => RRes::Err(e),
                                            });
                                            i += 1;
                                        }
                                        _ => break,
                                    }
                                }
                            }
                        }
                    }
                }
            }
        });
        if let Err(p) = r {
            out.panic = Some(p);
        }
        out.src = stats.borrow().clone();
        crate::seams::log_num("read-open", u64::from(out.open.is_ok()), u64::from(out.panic.is_some()));
        for r in &out.results {
            match r {
                RRes::Names(n) => crate::seams::log_obs("names", n.join("\n").as_bytes()),
                RRes::Opened { size } => crate::seams::log_num("opened", *size, 0),
                RRes::NotFound => crate::seams::log_num("notfound", 0, 0),
                RRes::NoFile => crate::seams::log_num("nofile", 0, 0),
                RRes::Bytes(b) => crate::seams::log_obs("bytes", b),
                RRes::Hash(h) => crate::seams::log_obs("hash", h),
                RRes::Digest { len, sha } => {
                    crate::seams::log_num("digest-len", *len, 0);
                    crate::seams::log_obs("digest", sha);
                }
                RRes::Err(_) => crate::seams::log_num("err", 0, 0),
            }
        }
        out
    }

    fn repair_into(&self, image: Rc<Vec<u8>>, rcfg: &ReadCfg, auth: bool, out_cfg: &ArcCfg, sink: SimSink) -> RepairOut {
        let src = source(&image, rcfg);
        let stats = src.stats_handle();
        let mut out = RepairOut { init: Ok(()), convert: None, out_image: Vec::new(), panic: None, src: Default::default() };
        hook_set_seed(if out_cfg.rng_seed != 0 { Some(out_cfg.rng_seed) } else { None });
        let sink2 = sink.clone();
        let r = guard(|| {
            let mut rc = reader_config(rcfg);
            if auth {
                // default mode: either the untouched configuration or the explicit setter
                if rcfg.explicit_auth_mode {
                    rc.failsafe_return_only_authenticated_data();
                }
            } else {
                rc.failsafe_return_data_even_unauthenticated();
            }
            let mut fs = match ArchiveFailSafeReader::from_config(src, rc) {
                Ok(f) => f,
                Err(e) => {
                    out.init = Err(es(e));
                    return;
                }
            };
            let wc = match writer_config(out_cfg) {
                Ok(c) => c,
                Err(e) => {
                    out.convert = Some(Err(format!("harness: {e}")));
                    return;
                }
            };
            let mut w = match ArchiveWriter::from_config(sink2, wc) {
                Ok(w) => w,
                Err(e) => {
                    out.convert = Some(Err(format!("harness: writer {}", es(e))));
                    return;
                }
            };
            out.convert = Some(match fs.convert_to_archive(&mut w) {
                Ok(st) => Ok(status_of(&st)),
                Err(e) => Err(es(e)),
            });
        });
        hook_set_seed(None);
        if let Err(p) = r {
            out.panic = Some(p);
        }
        out.out_image = sink.data();
        out.src = stats.borrow().clone();
        match &out.convert {
            Some(Ok(st)) => {
                crate::seams::log_obs("repair-status", st.stop.as_bytes());
                crate::seams::log_obs("repair-unfinished", st.unfinished.clone().unwrap_or_default().join("\n").as_bytes());
            }
            other => crate::seams::log_num("repair-fail", u64::from(other.is_some()), u64::from(out.panic.is_some())),
        }
        out
    }

    fn linear_opts(&self, image: Rc<Vec<u8>>, rcfg: &ReadCfg, subset: &[String], sink_sched: &Sched, sink_fail_call: Option<u64>, keep: bool) -> LinearOut {
        let src = source(&image, rcfg);
        let mut out = LinearOut { open: Ok(()), result: None, got: BTreeMap::new(), lens: BTreeMap::new(), panic: None };
        let sinks: Vec<(String, SimSink)> = subset
            .iter()
            .enumerate()
            .map(|(i, n)| {
                let s = if keep { SimSink::new(sink_sched) } else { SimSink::counting(sink_sched, None) };
                if i == 0 {
                    s.0.borrow_mut().fail_from_call = sink_fail_call;
                }
                (n.clone(), s)
            })
            .collect();
        let r = guard(|| {
            let mut rd = match ArchiveReader::from_config(src, reader_config(rcfg)) {
                Ok(r) => r,
                Err(e) => {
                    out.open = Err(es(e));
                    return;
                }
            };
            let mut export: HashMap<&String, SimSink> = HashMap::new();
            for (n, s) in &sinks {
                export.insert(n, s.clone());
            }
            out.result = Some(mla::helpers::linear_extract(&mut rd, &mut export).map_err(es));
        });
        if let Err(p) = r {
            out.panic = Some(p);
        }
        for (n, s) in &sinks {
            out.got.insert(n.clone(), s.data());
            out.lens.insert(n.clone(), s.len() as u64);
            crate::seams::log_num("linear-got", s.len() as u64, 0);
        }
        crate::seams::log_num("linear-end", u64::from(matches!(out.result, Some(Ok(())))), u64::from(out.panic.is_some()));
        out
    }

    fn layers(&self, image: Rc<Vec<u8>>, depth: usize, rcfg: &ReadCfg, len: u64, ops: &[LOp]) -> LayerOut {
        let mut src = source(&image, rcfg);
        let mut out = LayerOut { build: Ok(()), results: Vec::new(), panic: None };
        let r = guard(|| {
            // exactly what `mlar info` does
            let build = (|| -> Result<Box<dyn LayerReader<'static, SimSource>>, String> {
                src.rewind().map_err(es)?;
                let header = ArchiveHeader::from(&mut src).map_err(es)?;
                let mut config = reader_config(rcfg);
                config.load_persistent(header.config).map_err(es)?;
                let mut raw = Box::new(RawLayerReader::new(src));
                raw.reset_position().map_err(es)?;
                let mut s: Box<dyn LayerReader<'static, SimSource>> = raw;
                let mut d = 0;
                if config.layers_enabled.contains(Layers::ENCRYPT) && d < depth {
                    s = Box::new(EncryptionLayerReader::new(s, &config.encrypt).map_err(es)?);
                    d += 1;
                }
                if config.layers_enabled.contains(Layers::COMPRESS) && d < depth {
                    s = Box::new(CompressionLayerReader::new(s).map_err(es)?);
                }
                s.initialize().map_err(es)?;
                Ok(s)
            })();
            let mut s = match build {
                Ok(s) => s,
                Err(e) => {
                    out.build = Err(e);
                    return;
                }
            };
            // position a cursor over the same plaintext would be at
            let mut mpos: u64 = 0;
            for op in ops {
                // a call refused with `Interrupted` (only under a source that interrupts) is made again, as the io
                // traits ask: a read as it was, a seek as an absolute seek to the same target
                let mut again = 0u32;
                let r = loop {
                    let before = mpos;
                    let res: std::io::Result<LRes> = match op {
                        LOp::SeekStart { p } => {
                            mpos = *p;
                            s.seek(SeekFrom::Start(*p)).map(LRes::Pos)
                        }
                        LOp::SeekCurTo { p } if again == 0 => {
                            let d = (*p as i64).wrapping_sub(mpos as i64);
                            mpos = *p;
                            s.seek(SeekFrom::Current(d)).map(LRes::Pos)
                        }
                        LOp::SeekEndTo { p } if again == 0 => {
                            mpos = *p;
                            s.seek(SeekFrom::End((*p as i64).wrapping_sub(len as i64))).map(LRes::Pos)
                        }
                        LOp::SeekCurTo { p } | LOp::SeekEndTo { p } => s.seek(SeekFrom::Start(*p)).map(LRes::Pos),
                        LOp::SeekCur0 => s.seek(SeekFrom::Current(0)).map(LRes::Pos),
                        LOp::Pos => s.stream_position().map(LRes::Pos),
                        LOp::Read { n } => {
                            let mut buf = vec![0u8; *n];
                            s.read(&mut buf).map(|k| {
                                buf.truncate(k);
                                mpos = mpos.saturating_add(k as u64);
                                LRes::Bytes(buf)
                            })
                        }
                    };
                    match res {
                        Ok(r) => break r,
                        Err(e) if e.kind() == std::io::ErrorKind::Interrupted && again < 500 => {
                            again += 1;
                            if matches!(op, LOp::Read { .. } | LOp::SeekCur0 | LOp::Pos) {
                                mpos = before;
                            }
                        }
                        Err(e) => break LRes::Err(es(e)),
                    }
                };
                out.results.push(r);
            }
        });
        if let Err(p) = r {
            out.panic = Some(p);
        }
        for r in &out.results {
            match r {
                LRes::Pos(p) => crate::seams::log_num("lpos", *p, 0),
                LRes::Bytes(b) => crate::seams::log_obs("lbytes", b),
                LRes::Err(_) => crate::seams::log_num("lerr", 0, 0),
            }
        }
        out
    }

    fn aesgcm_encrypt_split(&self, key: &[u8; 32], nonce: &[u8; 12], aad: &[u8], msg: &[u8], cuts: &[usize]) -> (Vec<u8>, [u8; 16]) {
        let mut c = mla::crypto::aesgcm::AesGcm256::new(key, nonce, aad).expect("aesgcm new");
        let mut buf = msg.to_vec();
        let mut prev = 0usize;
        for &cut in cuts.iter().chain(std::iter::once(&msg.len())) {
            let cut = cut.min(msg.len()).max(prev);
            c.encrypt(&mut buf[prev..cut]);
            prev = cut;
        }
        let tag = c.into_tag();
        let mut t = [0u8; 16];
        t.copy_from_slice(&tag);
        (buf, t)
    }

    fn aesgcm_decrypt(&self, key: &[u8; 32], nonce: &[u8; 12], aad: &[u8], ct: &[u8]) -> (Vec<u8>, [u8; 16]) {
        let mut c = mla::crypto::aesgcm::AesGcm256::new(key, nonce, aad).expect("aesgcm new");
        let mut buf = ct.to_vec();
        let tag = c.decrypt(&mut buf);
        let mut t = [0u8; 16];
        t.copy_from_slice(&tag);
        (buf, t)
    }
}

#[allow(dead_code)]
fn _unused(_: &mut dyn Write) {}
