//! C09 Writer calls are validated, and a refused call changes nothing.
use super::common::*;
use crate::model::*;
use crate::rng::Rng;
use crate::runner::{Case, Ctx, Prop, Tier, Violation};
use crate::seams::{Sched, SimSink};
use crate::sut::{consts_of, sut, ReadCfg};
use std::collections::{BTreeMap, BTreeSet};
use std::rc::Rc;

pub struct C09;

const NSYM: u64 = 19;

#[derive(Clone, Copy, PartialEq, Debug)]
enum Expect {
    Ok,
    Refuse,
    ShortSrc,
    Any,
}

#[derive(Clone, PartialEq)]
enum H {
    Open(String),
    Ended,
}

/// Interpret a call sequence: what each call must do, and the archive the accepted calls describe.
/// Returns (expectations, model, poisoned_from, finalized, open handles at the end)
fn interpret(ops: &[WOp]) -> (Vec<Expect>, Model, Option<usize>, bool, Vec<usize>) {
    let mut ex = Vec::new();
    let mut m = Model::default();
    let mut handles: BTreeMap<usize, H> = BTreeMap::new();
    let mut names: BTreeSet<String> = BTreeSet::new();
    let mut finalized = false;
    let mut poisoned = None;
    for (i, op) in ops.iter().enumerate() {
        let e = match op {
            WOp::Start { f, name } => {
                let n = name.string();
                if finalized || names.contains(&n) || n.len() > 65536 {
                    Expect::Refuse
                } else {
                    names.insert(n.clone());
                    handles.insert(*f, H::Open(n.clone()));
                    m.order.push(n.clone());
                    m.files.insert(n, Vec::new());
                    Expect::Ok
                }
            }
            WOp::Add { name, data, src } => {
                let n = name.string();
                if finalized || names.contains(&n) || n.len() > 65536 {
                    Expect::Refuse
                } else if src.short_by > 0 && data.len() > 0 {
                    poisoned.get_or_insert(i);
                    Expect::ShortSrc
                } else {
                    names.insert(n.clone());
                    m.order.push(n.clone());
                    m.files.insert(n, data.bytes());
                    Expect::Ok
                }
            }
            WOp::Append { f, data, src } => match handles.get(f) {
                Some(H::Open(n)) if !finalized => {
                    if src.short_by > 0 && data.len() > 0 {
                        poisoned.get_or_insert(i);
                        Expect::ShortSrc
                    } else {
                        m.files.get_mut(n).unwrap().extend_from_slice(&data.bytes());
                        Expect::Ok
                    }
                }
                _ => Expect::Refuse,
            },
            WOp::End { f } => match handles.get(f) {
                Some(H::Open(_)) if !finalized => {
                    handles.insert(*f, H::Ended);
                    Expect::Ok
                }
                _ => Expect::Refuse,
            },
            WOp::Flush => Expect::Any,
            WOp::Finalize => {
                if finalized || handles.values().any(|h| matches!(h, H::Open(_))) {
                    Expect::Refuse
                } else {
                    finalized = true;
                    Expect::Ok
                }
            }
            WOp::AppendRaw { .. } | WOp::EndRaw { .. } => Expect::Refuse,
        };
        ex.push(e);
    }
    let open: Vec<usize> = handles.iter().filter(|(_, h)| matches!(h, H::Open(_))).map(|(f, _)| *f).collect();
    (ex, m, poisoned, finalized, open)
}

/// Symbol -> concrete op, given the symbolic state so far
/// runs with a short source ending on a power-of-two edge: 11 exponents x 3 multiples x 4 announced sizes
const N_EDGE_SRC: u64 = 132;

struct Builder {
    ops: Vec<WOp>,
    next_f: usize,
    open: Vec<usize>,
    ended: Vec<usize>,
    names: Vec<Name>,
    fresh: usize,
    finalized: bool,
}

impl Builder {
    fn new() -> Self {
        Builder { ops: Vec::new(), next_f: 0, open: Vec::new(), ended: Vec::new(), names: Vec::new(), fresh: 0, finalized: false }
    }
    fn data(&mut self, k: usize) -> Data {
        Data::Period { n: 3 + k % 5, p: 7 + k }
    }
    fn push(&mut self, sym: u64, rng: Option<&mut Rng>) {
        let k = self.ops.len();
        let name_ok = |n: &Name, this: &Builder| !this.finalized && !this.names.contains(n) && n.string().len() <= 65536;
        let mut start = |this: &mut Builder, n: Name| {
            let f = this.next_f;
            this.next_f += 1;
            if name_ok(&n, this) {
                this.names.push(n.clone());
                this.open.push(f);
            }
            this.ops.push(WOp::Start { f, name: n });
        };
        // sampled sequences: 'duplicate', 'open' and 'ended' are not always the most recent one (two draws in three pick
        // any earlier name / any open file / any ended file)
        let mut rng = rng;
        let sel: Option<u64> = rng.as_deref_mut().map(Rng::u64);
        let choose = |v: &[usize], last: bool| -> Option<usize> {
            match sel {
                Some(x) if x % 3 != 0 && !v.is_empty() => Some(v[(x / 3) as usize % v.len()]),
                _ => if last { v.last().copied() } else { v.first().copied() },
            }
        };
        let dup = match sel {
            Some(x) if x % 3 != 0 && !self.names.is_empty() => self.names[(x / 3) as usize % self.names.len()].clone(),
            _ => self.names.last().cloned().unwrap_or_else(|| Name::lit("never-used-yet")),
        };
        let long_seed = 1000 + k as u64;
        match sym {
            0 => {
                self.fresh += 1;
                let n = Name::lit(&format!("n{}", self.fresh));
                start(self, n);
            }
            1 => start(self, dup),
            2 => start(self, Name::lit("")),
            3 => start(self, Name::Long { n: 65536, seed: long_seed }),
            4 => start(self, Name::Long { n: 65537, seed: long_seed }),
            5 | 6 | 7 => {
                let n = match sym {
                    5 => {
                        self.fresh += 1;
                        Name::lit(&format!("n{}", self.fresh))
                    }
                    6 => dup,
                    _ => Name::Long { n: 65537, seed: long_seed },
                };
                if name_ok(&n, self) {
                    self.names.push(n.clone());
                }
                let d = self.data(k);
                self.ops.push(WOp::Add { name: n, data: d, src: Src::exact() });
            }
            8 | 9 | 10 => {
                // append to the most recently opened file (or a never-issued handle if none)
                let f = choose(&self.open, true).unwrap_or(900 + k);
                let mut d = self.data(k);
                let mut sched = Sched::Full;
                if let Some(r) = rng {
                    let n = *r.pick(&[0usize, 1, 3, 8, 33, 129, 300]);
                    d = d.with_len(n.max(usize::from(sym == 9)));
                    // one sampled append in three reads its source in several short reads (legal for any Read)
                    if r.chance(1, 3) {
                        sched = Sched::make(r, false);
                    }
                }
                let src = match sym {
                    8 => Src { sched: sched.clone(), short_by: 0, extra: 0, stream: false },
                    9 => Src { sched: sched.clone(), short_by: 1 + k % d.len().max(1), extra: 0, stream: false },
                    _ => Src { sched, short_by: 0, extra: 1 + k % 4, stream: false },
                };
                self.ops.push(WOp::Append { f, data: d, src });
            }
            11 => {
                let f = choose(&self.ended, true).unwrap_or(800 + k);
                let d = self.data(k);
                self.ops.push(WOp::Append { f, data: d, src: Src::exact() });
            }
            12 => {
                let d = self.data(k);
                self.ops.push(WOp::Append { f: 700 + k, data: d, src: Src::exact() });
            }
            13 => {
                let f = choose(&self.open, true).unwrap_or(600 + k);
                if let Some(p) = self.open.iter().position(|x| *x == f) {
                    if !self.finalized {
                        self.open.remove(p);
                        self.ended.push(f);
                    }
                }
                self.ops.push(WOp::End { f });
            }
            14 => {
                let f = choose(&self.ended, true).unwrap_or(500 + k);
                self.ops.push(WOp::End { f });
            }
            15 => self.ops.push(WOp::End { f: 400 + k }),
            16 => self.ops.push(WOp::Flush),
            18 => {
                // append to the OLDEST open file (interleaving with the files opened after it)
                let f = self.open.first().copied().unwrap_or(300 + k);
                let mut d = self.data(k);
                if let Some(r) = rng {
                    d = d.with_len(*r.pick(&[1usize, 3, 8, 33, 129]));
                }
                self.ops.push(WOp::Append { f, data: d, src: Src::exact() });
            }
            _ => {
                if self.open.is_empty() {
                    self.finalized = true;
                }
                self.ops.push(WOp::Finalize);
            }
        }
    }
}

/// number of exhaustive sequences of length 1..=l
fn n_exh(l: u32) -> u64 {
    (1..=l).map(|k| NSYM.pow(k)).sum()
}

impl Prop for C09 {
    fn id(&self) -> &'static str {
        "C09"
    }
    fn level(&self) -> &'static str {
        "exploration"
    }
    fn rule(&self) -> String {
        "run = one writer call sequence over a 19-symbol alphabet {start(fresh | duplicate | empty | 65536-byte | 65537-byte name), add(fresh | duplicate | 65537-byte name), append(to the most recently opened file from an exact | short | longer source; to the oldest open file; to an ended file; to a never-issued id), end(open | ended | never-issued id), flush, finalize}. ALL sequences of length 1..3 (quick) / 1..4 (thorough) are enumerated on the s0 build without layers; then 132 runs with ONE append whose source ends exactly on j x 2^e bytes (e = 12..22, j = 1..3; production constants, all layer sets) while 1 byte, half a unit, a unit or several units more were announced - the edge of whatever copy buffer lies on the path; the remaining runs are seeded sequences of length 5..40 on all variants and layer sets with seeded piece sizes (one append in three from a source that returns short reads), in which 'duplicate', 'open' and 'ended' mean ANY earlier name / open file / ended file two times in three (the most recent one otherwise). A model interprets the sequence: which calls must be refused (duplicate or over-long name, file not open, anything after finalize, finalize with open files), what the archive described by the accepted calls is. Oracle: the library refuses exactly those calls; a short source is never Ok; afterwards the harness ends the open files and finalizes, and the archive must read back to the model that ignored the refused calls (listing, sizes, bytes, hashes), repair of it must give the same files and linear extraction must agree; on the hook variants (randomness pinned) the archive must also be BYTE-IDENTICAL to the one written from the accepted calls only. After a short source the archive counts as poisoned: only no-panic is demanded. distinct_nontrivial = distinct (variant, layers, multiset of (symbol, outcome) pairs, final state) signatures.".into()
    }
    fn assumptions(&self) -> Vec<String> {
        vec!["a source longer than announced is legal (the first `size` bytes are kept); flush after finalize is not a refused call".into()]
    }
    fn runs(&self, tier: Tier) -> u64 {
        match tier {
            Tier::Quick => n_exh(3) + N_EDGE_SRC + 2500,
            Tier::Thorough => n_exh(4) + N_EDGE_SRC + 100_000,
        }
    }
    fn make(&self, seed: u64, run: u64, tier: Tier) -> Case {
        let exh = match tier {
            Tier::Quick => 3,
            Tier::Thorough => 4,
        };
        let mut b = Builder::new();
        if run < n_exh(exh) {
            // decode run -> (length, digits)
            let mut r = run;
            let mut l = 1;
            while r >= NSYM.pow(l) {
                r -= NSYM.pow(l);
                l += 1;
            }
            let mut digits = Vec::new();
            for _ in 0..l {
                digits.push(r % NSYM);
                r /= NSYM;
            }
            for d in digits {
                b.push(d, None);
            }
            let cfg = ArcCfg { variant: "s0".into(), layers: 0, level: 0, recipients: 0, reader: 0, rng_seed: 0, key_seed: 0 };
            return Case::new("C09", cfg, b.ops);
        }
        if run < n_exh(exh) + N_EDGE_SRC {
            // a short source that ends EXACTLY on a multiple of a power of two (4 KiB .. 4 MiB: whatever copy buffer
            // the writer path uses, one of these is its edge), announced 1 byte / half a unit / one unit / several
            // units longer; one such append, then the rest of a normal sequence
            let k = run - n_exh(exh);
            let (e, j, d) = (12 + k / 12, 1 + (k % 12) / 4, k % 4);
            let unit = 1usize << e;
            let have = j as usize * unit;
            let short_by = [1, unit / 2, unit, 3 * unit + 5][d as usize];
            let layers = (k % 4) as u8 ^ ((k / 4) % 4) as u8;
            let cfg = ArcCfg { variant: "prodv".into(), layers, level: 1, recipients: usize::from(layers & 1 != 0), reader: 0, rng_seed: 11, key_seed: 11 };
            b.push(0, None);
            b.ops.push(WOp::Append { f: 0, data: Data::Period { n: have + short_by, p: 251 }, src: Src { sched: Sched::Full, short_by, extra: 0, stream: false } });
            b.push(13, None);
            b.push(5, None);
            return Case::new("C09", cfg, b.ops);
        }
        let mut rng = Rng::derive(seed, "C09", run - N_EDGE_SRC, "gen");
        let variant = pick_variant(&mut rng, tier);
        let vc = consts_of(variant);
        let cfg = gen_cfg(&mut rng, variant, vc.hooks);
        let len = rng.range(5, 40);
        for _ in 0..len {
            // valid symbols are more likely, so that sequences make progress
            let sym = *rng.pick(&[0u64, 0, 0, 1, 2, 3, 4, 5, 5, 6, 7, 8, 8, 8, 8, 9, 10, 10, 11, 12, 13, 13, 13, 14, 15, 16, 17, 18, 18, 18]);
            let mut r2 = rng.clone();
            b.push(sym, Some(&mut r2));
            rng.u64();
        }
        Case::new("C09", cfg, b.ops)
    }
    fn exec(&self, case: &Case, ctx: &mut Ctx) -> Vec<Violation> {
        let mut v = Vec::new();
        let s = sut(&case.cfg.variant);
        let (ex, model, poisoned, finalized, open) = interpret(&case.ops);
        // the harness completes the archive after the sequence
        let mut ops = case.ops.clone();
        let n_seq = ops.len();
        for f in &open {
            ops.push(WOp::End { f: *f });
        }
        if !finalized {
            ops.push(WOp::Finalize);
        }
        let sink = SimSink::new(&Sched::Full);
        let w = s.write(&case.cfg, &ops, sink.clone());
        ctx.eval();
        if let Some(p) = &w.panic {
            v.push(Violation::new("writer-panic", super::repair::panic_class(p), format!("writer panicked: {p}")));
            return v;
        }
        if let Some(e) = &w.from_config_err {
            v.push(Violation::new("valid-call-refused", "from_config", format!("from_config: {e}")));
            return v;
        }
        let mut pairs: BTreeSet<String> = BTreeSet::new();
        for (i, (e, r)) in ex.iter().zip(w.results.iter()).enumerate() {
            ctx.eval();
            if poisoned.is_some_and(|p| i > p) {
                break;
            }
            let sym = sym_of(&case.ops[i], &case.ops[..i]);
            pairs.insert(format!("{sym}:{}", if r.is_ok() { "ok" } else { "err" }));
            match (e, r) {
                (Expect::Ok, Err(err)) => v.push(Violation::new("valid-call-refused", sym.clone(), format!("call #{i} {} is valid but returned {err}", case.ops[i].short()))),
                (Expect::Refuse, Ok(_)) => v.push(Violation::new("refused-call-accepted", sym.clone(), format!("call #{i} {} must be refused ({}) but returned Ok", case.ops[i].short(), sym))),
                (Expect::ShortSrc, Ok(_)) => v.push(Violation::new("short-source-ok", sym.clone(), format!("call #{i} {}: the source ended before the announced size, yet the call returned Ok", case.ops[i].short()))),
                _ => {}
            }
        }
        if !v.is_empty() || poisoned.is_some() {
            ctx.sig(format!("{}|{}|{}|poisoned{}", case.cfg.variant, case.cfg.layer_name(), pairs.into_iter().collect::<Vec<_>>().join(","), poisoned.is_some()));
            return v;
        }
        // completion calls must succeed
        for (i, r) in w.results.iter().enumerate().skip(n_seq) {
            if let Err(e) = r {
                v.push(Violation::new("refused-call-changed-state", "completion", format!("after the sequence (refused calls: {}), completing call {} failed: {e}", ex.iter().filter(|e| **e == Expect::Refuse).count(), ops[i].short())));
                return v;
            }
        }
        let image = Rc::new(sink.data());
        let rcfg = ReadCfg::for_cfg(&case.cfg);
        let any_refused = ex.iter().any(|e| *e == Expect::Refuse);
        let pfx = if any_refused { "refused-call-changed-archive" } else { "all-ok-sequence" };
        let rb = check_readback(s, &image, &rcfg, &model, 4096, ctx, pfx);
        let bad = !rb.is_empty();
        for mut x in rb {
            // the class names the refused symbols of the sequence
            let refused: BTreeSet<String> = ex.iter().enumerate().filter(|(_, e)| **e == Expect::Refuse).map(|(i, _)| sym_of(&case.ops[i], &case.ops[..i])).collect();
            x.class = format!("{}|refused={}", x.class, refused.into_iter().collect::<Vec<_>>().join("+"));
            v.push(x);
        }
        if any_refused && !bad && s.consts().hooks && (case.cfg.rng_seed != 0 || !case.cfg.enc()) {
            // 'the final archive equals the one built without the refused calls': with the randomness pinned (hook
            // variants) the two archives must be the same BYTES, not only read back alike
            let ops2: Vec<WOp> = ops.iter().enumerate().filter(|(i, _)| *i >= n_seq || ex[*i] != Expect::Refuse).map(|(_, o)| o.clone()).collect();
            let sink2 = SimSink::new(&Sched::Full);
            let w2 = s.write(&case.cfg, &ops2, sink2.clone());
            ctx.eval();
            if w2.panic.is_none() && w2.from_config_err.is_none() && w2.results.iter().all(Result::is_ok) {
                let other = sink2.data();
                if other != *image {
                    let refused: BTreeSet<String> = ex.iter().enumerate().filter(|(_, e)| **e == Expect::Refuse).map(|(i, _)| sym_of(&case.ops[i], &case.ops[..i])).collect();
                    v.push(Violation::new("refused-call-changed-archive-bytes", format!("bytes|refused={}", refused.into_iter().collect::<Vec<_>>().join("+")), format!("the archive built with the refused calls ({} bytes) differs from the one built from the accepted calls only ({} bytes), first difference at {}", image.len(), other.len(), first_diff(&image, &other))));
                }
            } else {
                v.push(Violation::new("valid-call-refused", "accepted-only", format!("the sequence without its refused calls does not write: {:?} {:?}", w2.panic, w2.results.iter().find(|r| r.is_err()))));
            }
        }
        if !bad {
            // repair and linear extraction agree
            let ocfg = ArcCfg { variant: case.cfg.variant.clone(), layers: 0, level: 0, recipients: 0, reader: 0, rng_seed: 0, key_seed: 0 };
            let rep = s.repair(image.clone(), &rcfg, false, &ocfg, &Sched::Full);
            ctx.eval();
            let plain = ReadCfg { keys: vec![], sched: Sched::Full, budget: u64::MAX / 2, error_at_read: None, spill_path: None, explicit_auth_mode: false, replay: None };
            match (&rep.panic, &rep.convert) {
                (None, Some(Ok(st))) => match read_all(s, &Rc::new(rep.out_image.clone()), &plain) {
                    Ok(files) if files == model.files && st.stop == "EndOfOriginalArchiveData" => {}
                    other => v.push(Violation::new("repair-disagrees", "repair", format!("repair of the finished archive: status {} and {:?}", st.stop, other.map(|m| m.len())))),
                },
                other => v.push(Violation::new("repair-disagrees", "repair", format!("repair of the finished archive failed: {:?}", format!("{other:?}").chars().take(200).collect::<String>()))),
            }
            let names: Vec<String> = model.order.clone();
            let lin = s.linear(image.clone(), &rcfg, &names, &Sched::Full, None);
            ctx.eval();
            if lin.panic.is_some() || !matches!(lin.result, Some(Ok(()))) || lin.got != model.files {
                v.push(Violation::new("linear-disagrees", "linear", format!("linear extraction of the finished archive: {:?} {:?}", lin.panic, lin.result)));
            }
        }
        ctx.sig(format!("{}|{}|{}|fin{}", case.cfg.variant, case.cfg.layer_name(), pairs.into_iter().collect::<Vec<_>>().join(","), finalized));
        v
    }
}

/// symbolic name of a call (for signatures and finding classes)
fn sym_of(op: &WOp, before: &[WOp]) -> String {
    let (ex, ..) = interpret(before);
    let _ = ex;
    match op {
        WOp::Start { name, .. } | WOp::Add { name, .. } => {
            let n = name.string();
            let kind = if n.len() > 65536 {
                "name65537"
            } else if n.len() == 65536 {
                "name65536"
            } else if n.is_empty() {
                "name-empty"
            } else {
                "name"
            };
            let dup = before.iter().any(|o| matches!(o, WOp::Start { name: m, .. } | WOp::Add { name: m, .. } if m.string() == n));
            format!("{}({kind}{})", if matches!(op, WOp::Start { .. }) { "start" } else { "add" }, if dup { ",seen-before" } else { "" })
        }
        WOp::Append { src, .. } => format!("append({})", if src.short_by > 0 { "short-source" } else if src.extra > 0 { "long-source" } else { "exact" }),
        WOp::End { .. } => "end".into(),
        WOp::Flush => "flush".into(),
        WOp::Finalize => "finalize".into(),
        WOp::AppendRaw { .. } => "append-raw".into(),
        WOp::EndRaw { .. } => "end-raw".into(),
    }
}
