//! C02 (repair of any truncated archive is sound) and C05 (repair complete on
//! undamaged archives, monotone, lower bound without compression): one crash-point
//! sweep, two sets of oracle clauses.
use super::common::*;
use crate::model::*;
use crate::refmla;
use crate::rng::Rng;
use crate::runner::{Case, Ctx, Fault, Prop, Tier, Violation};
use crate::seams::{Sched, SimSink};
use crate::sut::{consts_of, sut, ReadCfg};
use std::collections::BTreeMap;
use std::rc::Rc;

pub struct Repair {
    pub id: &'static str,
}

pub static C02: Repair = Repair { id: "C02" };
pub static C05: Repair = Repair { id: "C05" };

fn out_cfg(variant: &str) -> ArcCfg {
    ArcCfg { variant: variant.to_string(), layers: 0, level: 0, recipients: 0, reader: 0, rng_seed: 0, key_seed: 0 }
}

/// cut positions for one image
fn cut_points(case: &Case, len: usize, lay: Option<&Layout>, rng: &mut Rng) -> Vec<usize> {
    let explicit: Vec<usize> = case.faults.iter().filter_map(|f| if let Fault::Cut { n } = f { Some((*n).min(len)) } else { None }).collect();
    if !explicit.is_empty() {
        return explicit;
    }
    let full_limit = case.param("full_sweep_limit", 2600) as usize;
    if len <= full_limit {
        return (0..=len).collect();
    }
    let w = case.param("window", 20) as usize;
    let mut v: Vec<usize> = Vec::new();
    if let Some(l) = lay {
        let max_anchors = case.param("max_anchors", 40) as usize;
        let step = (l.anchors.len() / max_anchors.max(1)).max(1);
        for (i, a) in l.anchors.iter().enumerate() {
            if i % step != 0 && i + 3 < l.anchors.len() && i > 2 {
                continue;
            }
            for n in a.saturating_sub(w)..=(a + w).min(len) {
                v.push(n);
            }
        }
    }
    for _ in 0..case.param("samples", 60) {
        v.push(rng.range(0, len as u64) as usize);
    }
    v.push(len);
    v.sort();
    v.dedup();
    v
}

impl Prop for Repair {
    fn id(&self) -> &'static str {
        self.id
    }
    fn level(&self) -> &'static str {
        "fault_enumeration"
    }
    fn rule(&self) -> String {
        let common = "run = one seeded valid writer history (as C01, with flushes, block-lookalike content on some runs, 65..200 files with long-lived open ones on one run in 20, 17..1000 recipients on one encrypted run in 20) written to the simulated sink; crash fault = the sink dies after n accepted bytes, i.e. the stored image is the first n bytes. On s0/s1 images up to 2600 bytes EVERY n in 0..=len is taken (exhaustive in the crash point for the workloads visited); on larger images windows of +-20 bytes around every structural anchor of the layout map (header end, every chunk payload/tag edge, every compressed-block edge, every file-layer block, end marker, index) plus a seeded sample; the first 24 (thorough: 240) runs use production constants and one content block longer than the 8 MiB repair copy buffer, and SEARCH the crash point (bisection on the recovered length) at which the bytes recovered from that block end exactly on the buffer edge, then judge the 7 cuts around it. The run after those (thorough: the six after) holds 33000..70000 tiny files - ids beyond 2^15 and 2^16 - and is repaired undamaged and at three seeded cuts. One scaled run in 12 takes the same files in an archive of the INDEPENDENT writer (file ids not 0,1,2.. but from 1, large, or decreasing; an index listing every block; empty content blocks; a trailing empty compressed block). Each cut image is repaired in authenticated and unauthenticated mode through the simulated source (complete reads; on one scaled run in six short reads on every repair) with a step budget, into an archive without layers (one run in four: compressed and/or encrypted), and the produced archive is read back with the normal reader. evaluations = repairs judged; distinct_nontrivial = distinct (variant, layers, mode, region class of the cut, anchor?, stop status, unfinished?) signatures.";
        if self.id == "C02" {
            format!("{common} Clauses: no panic/budget overrun; for n >= header length from_config and convert_to_archive return Ok; repaired archive opens and reads back with consistent size/hash; names subset of original; every recovered file is a prefix of the original; files not reported unfinished are complete; EndOfOriginalArchiveData only if everything was recovered.")
        } else {
            format!("{common} Clauses: n = len (undamaged) => every file complete, status EndOfOriginalArchiveData, nothing unfinished; monotone: for consecutive cuts n < m no file gets shorter; without compression the recovered bytes include the ground truth from the layout map (all payload bytes present / in authenticated mode all bytes of complete chunks, parsed into blocks by the independent format model).")
        }
    }
    fn assumptions(&self) -> Vec<String> {
        vec![
            "every crash state of a streaming writer is a prefix of the bytes the finished stream would contain (the sink is append-only and the writer deterministic), so cutting the finished image covers cuts of unfinished writers".into(),
            "scaled variants keep the production order/divisibility relations of the size constants".into(),
            "the output archive of repair is written to an in-memory fault-free sink (without layers on three runs in four, compressed and/or encrypted on the fourth)".into(),
        ]
    }
    fn runs(&self, tier: Tier) -> u64 {
        match tier {
            Tier::Quick => 450,
            Tier::Thorough => 12_000,
        }
    }
    fn make(&self, seed: u64, run: u64, tier: Tier) -> Case {
        // C02 and C05 draw different workloads from the same generator
        let mut rng = Rng::derive(seed, self.id, run, "gen");
        let x = rng.below(100);
        let variant = match tier {
            Tier::Quick => match x {
                0..=64 => "s0",
                65..=96 => "s1",
                _ => "prodv",
            },
            Tier::Thorough => match x {
                0..=54 => "s0",
                55..=89 => "s1",
                90..=97 => "prodv",
                _ => "prod",
            },
        };
        let edge_runs = match tier {
            Tier::Quick => 24,
            Tier::Thorough => 240,
        };
        if run < edge_runs {
            // production constants, one content block LONGER than the repair copy buffer (8 MiB): the crash point is
            // searched (exec) so that the bytes recovered from that block stop exactly at the buffer's edge
            let k = run;
            let variant = if tier == Tier::Thorough && k % 3 == 2 { "prod" } else { "prodv" };
            let vc = consts_of(variant);
            let cache = vc.model_consts().repair_cache;
            let mut cfg = gen_cfg(&mut rng, variant, vc.hooks);
            cfg.layers = (k % 4) as u8;
            if k % 8 < 4 {
                cfg.layers |= L_COMP;
            }
            cfg.recipients = if cfg.enc() { cfg.recipients.max(1) } else { 0 };
            cfg.reader = 0;
            cfg.level = *rng.pick(&[0u32, 1, 2, 5]);
            let pre = if rng.chance(1, 2) { 0 } else { rng.range(1, 3 * vc.chunk) as usize };
            let n = cache + rng.range(1, cache as u64 / 4) as usize;
            let data = if k % 5 == 4 { Data::Text { n, seed: rng.u64() } } else { Data::Rand { n, seed: rng.u64() } };
            let mut ops = vec![WOp::Start { f: 0, name: Name::lit("big") }];
            if pre > 0 {
                ops.push(WOp::Append { f: 0, data: Data::Rand { n: pre, seed: rng.u64() }, src: Src::exact() });
            }
            ops.push(WOp::Append { f: 0, data, src: Src::exact() });
            ops.push(WOp::End { f: 0 });
            ops.push(WOp::Add { name: Name::lit("tail"), data: Data::Period { n: 100, p: 7 }, src: Src::exact() });
            ops.push(WOp::Finalize);
            let mut case = Case::new(self.id, cfg, ops);
            case.params.insert("cache_edge".into(), (pre + cache) as i64);
            case.params.insert("cut_seed".into(), 1);
            return case;
        }
        let count_runs = match tier {
            Tier::Quick => 1,
            Tier::Thorough => 6,
        };
        if run < edge_runs + count_runs {
            // tens of thousands of files (ids beyond 2^15, in the thorough tier beyond 2^16) with one long-lived file;
            // repaired undamaged and at a handful of cuts
            let k = run - edge_runs;
            let n = [33_000usize, 66_000, 40_000, 33_000, 70_000, 33_000][k as usize % 6];
            let variant = if k % 2 == 0 { "s0" } else { "s1" };
            let layers = [0u8, 1, 2, 3, 0, 1][k as usize % 6];
            let cfg = ArcCfg { variant: variant.into(), layers, level: 1, recipients: usize::from(layers & 1 != 0), reader: 0, rng_seed: run + 3, key_seed: run + 9 };
            let ops = gen_many_files(&mut rng, n, 1, 3);
            let mut case = Case::new(self.id, cfg, ops);
            case.params.insert("full_sweep_limit".into(), 0);
            case.params.insert("max_anchors".into(), 0);
            case.params.insert("samples".into(), 2);
            case.params.insert("window".into(), 0);
            case.params.insert("file_count".into(), n as i64);
            case.params.insert("cut_seed".into(), (rng.u64() >> 1) as i64);
            return case;
        }
        let vc = consts_of(variant);
        let mut c = vc.model_consts();
        let big = vc.chunk > 1000;
        if big && rng.chance(3, 4) {
            c.block = 2 * c.chunk;
            c.repair_cache = 4 * c.chunk;
        }
        let mut cfg = gen_cfg(&mut rng, variant, vc.hooks);
        if self.id == "C05" && rng.chance(1, 2) {
            // compression-heavy: the completeness clause is about block edges
            cfg.layers |= L_COMP;
        }
        let small_total = match variant {
            "s0" => rng.range(0, 700) as usize,
            "s1" => rng.range(0, 5000) as usize,
            _ => 3 * c.block,
        };
        let o = GenOpts {
            max_files: if self.id == "C05" && rng.chance(1, 5) { 12 } else { 4 },
            max_ops: if big { 10 } else { 24 },
            max_piece: if big { 2 * c.block + 100 } else { small_total.max(1) },
            max_total: small_total,
            interleave: rng.chance(2, 3),
            flushes: rng.chance(1, 3),
            // one run in four also uses the empty name and, rarely, a 65536-byte name
            special_names: rng.chance(1, 4),
            finalize: true,
            piece_scheds: false,
        };
        let mut ops = gen_ops(&mut rng, &c, &o);
        if !big && rng.chance(1, 10) {
            // many small entries: tens to hundreds of files of 0..3 bytes
            ops.clear();
            let n = rng.range(20, if variant == "s0" { 40 } else { 90 });
            for i in 0..n {
                ops.push(WOp::Add { name: Name::lit(&format!("e{i}")), data: Data::Period { n: rng.below(4) as usize, p: 3 }, src: Src::exact() });
            }
            ops.push(WOp::Finalize);
        }
        let mut crowd_of_files = false;
        if !big && rng.chance(1, 20) {
            crowd_of_files = true;
            // many files, a few of them open across dozens of others
            let n = *rng.pick(&[65usize, 70, 129, 200]);
            let ll = rng.range(1, 3) as usize;
            ops = gen_many_files(&mut rng, n, ll, 6);
        }
        let usual = cfg.recipients;
        maybe_many_recipients(&mut rng, &mut cfg, 20);
        let crowded = cfg.recipients != usual;
        if !big && !cfg.comp() && rng.chance(1, 6) {
            // adversarial block-lookalike content: a well-formed FileStart("intruder")... sequence planted in a
            // file's content at chunk-aligned stream offsets (36 = FileStart(17+2) + content header 17)
            let look = lookalike_blocks().len();
            let period = c.chunk * look.div_ceil(c.chunk);
            let n = rng.range(2, 5) as usize * period + rng.usize_below(c.chunk);
            ops.insert(0, WOp::Add { name: Name::lit("lk"), data: Data::Look { n, first: (c.chunk - 36 % c.chunk) % c.chunk, period, seed: rng.u64() }, src: Src::exact() });
        }
        let mut case = Case::new(self.id, cfg, ops);
        if crowd_of_files {
            // hundreds of blocks: a repair costs milliseconds, so fewer cuts (still every region class)
            case.params.insert("max_anchors".into(), 10);
            case.params.insert("samples".into(), 25);
            case.params.insert("window".into(), 5);
        }
        if crowded {
            // every repair walks the key list: fewer cuts (header end, first anchors, the end, a sample)
            let heavy = case.cfg.recipients >= 300;
            case.params.insert("full_sweep_limit".into(), 0);
            case.params.insert("max_anchors".into(), if heavy { 3 } else { 8 });
            case.params.insert("samples".into(), if heavy { 4 } else { 12 });
            case.params.insert("window".into(), if heavy { 2 } else { 6 });
        }
        if big {
            case.params.insert("max_anchors".into(), 12);
            case.params.insert("samples".into(), 10);
            case.params.insert("window".into(), 18);
        }
        case.params.insert("cut_seed".into(), (rng.u64() >> 1) as i64);
        if !big && !crowd_of_files && rng.chance(1, 12) {
            case.params.insert("foreign".into(), 1);
        }
        if !crowd_of_files && rng.chance(1, 4) {
            case.params.insert("out_layers".into(), rng.range(1, 3) as i64);
            // (setting up the output layers for every repaired cut costs milliseconds: fewer cuts)
            if !case.params.contains_key("full_sweep_limit") {
                case.params.insert("full_sweep_limit".into(), 500);
                case.params.insert("max_anchors".into(), 12);
                case.params.insert("samples".into(), 25);
                case.params.insert("window".into(), 6);
            }
        }
        if !big && rng.chance(1, 6) {
            // every repair of this run reads through a source that returns short reads
            let mut r = ReadCfg::for_cfg(&case.cfg);
            r.sched = Sched::make(&mut rng, false);
            case.rcfg = Some(r);
            // (a repair that reads byte by byte costs many seam calls: fewer cuts)
            case.params.insert("full_sweep_limit".into(), 300);
            case.params.insert("max_anchors".into(), 10);
            case.params.insert("samples".into(), 20);
            case.params.insert("window".into(), 4);
        }
        case
    }
    fn exec(&self, case: &Case, ctx: &mut Ctx) -> Vec<Violation> {
        let is02 = self.id == "C02";
        let s = sut(&case.cfg.variant);
        let vc = s.consts();
        let (chunk, block) = (vc.chunk as usize, vc.block as usize);
        let sink = SimSink::new(&Sched::Full);
        let w = s.write(&case.cfg, &case.ops, sink.clone());
        let mut v = Vec::new();
        if w.panic.is_some() || w.from_config_err.is_some() || w.results.iter().any(Result::is_err) {
            // valid histories must write: C01's clause, reported here under its own name
            v.push(Violation::new("workload-write-failed", "write", format!("writing the workload failed: {:?} {:?} {:?}", w.panic, w.from_config_err, w.results.iter().find(|r| r.is_err()))));
            return v;
        }
        let model = model_of(&case.ops);
        // one scaled run in 12: the same files in an archive of the independent writer (ids not 0.., every block
        // listed, empty blocks...): every clause holds for any valid archive, not only for those the library writes
        let foreign = case.param("foreign", 0) == 1 && model.order.iter().all(|n| n.len() <= 65536) && model.order.len() == model.files.len();
        let image = if foreign { foreign_image(&case.cfg, &model, chunk, block, case.param("cut_seed", 1) as u64 ^ 0xF0) } else { sink.data() };
        let len = image.len();
        let hlen = header_len(&case.cfg);
        let lay = layout_of(&image, &case.cfg, chunk, block).ok();
        if lay.is_none() {
            ctx.probe("layout-unavailable");
        }
        let rcfg0 = case.rcfg.clone().unwrap_or_else(|| ReadCfg::for_cfg(&case.cfg));
        let mut crng = Rng::new(case.param("cut_seed", 1) as u64);
        let cuts = cut_points(case, len, lay.as_ref(), &mut crng);
        let modes: &[bool] = if case.cfg.enc() { &[true, false] } else { &[true] };
        let only_mode = case.param("only_auth", -1);
        // the archive that repair writes: without layers mostly; one run in four compressed and/or encrypted (own keys)
        let mut ocfg = out_cfg(&case.cfg.variant);
        let ol = case.param("out_layers", 0) as u8 & 3;
        if ol != 0 {
            ocfg.layers = ol;
            // (levels 0/1: a compressor is set up for every repaired cut, the higher levels cost milliseconds each)
            ocfg.level = (case.param("cut_seed", 0) % 2) as u32;
            ocfg.recipients = usize::from(ol & 1 != 0);
            ocfg.key_seed = 0x0E0E;
            ocfg.rng_seed = if vc.hooks { 0x5EED } else { 0 };
        }
        let plain_rcfg = ReadCfg::for_cfg(&ocfg);
        // ground truth pieces (no compression only)
        let stream_len = len - hlen;
        for &auth in modes {
            if only_mode >= 0 && (only_mode == 1) != auth {
                continue;
            }
            let mut prev: Option<(usize, BTreeMap<String, Vec<u8>>)> = None;
            let edge = case.param("cache_edge", 0) as usize;
            let searched: Vec<usize>;
            let cuts: &Vec<usize> = if edge > 0 && case.faults.is_empty() {
                // smallest crash point from which at least `edge` bytes of "big" come back (bisection: the recovered
                // length is monotone in the cut, which C05 checks); the judged cuts are the 7 around it
                let f = |n: usize| -> usize {
                    let mut rcfg = rcfg0.clone();
                    rcfg.budget = 200 * (n as u64) + 20_000;
                    let out = s.repair(Rc::new(image[..n].to_vec()), &rcfg, auth, &ocfg, &Sched::Full);
                    if out.panic.is_some() || out.init.is_err() || !matches!(out.convert, Some(Ok(_))) {
                        return 0;
                    }
                    read_all(s, &Rc::new(out.out_image), &plain_rcfg).ok().and_then(|m| m.get("big").map(Vec::len)).unwrap_or(0)
                };
                let (mut lo, mut hi) = (hlen.min(len), len);
                while lo < hi {
                    let mid = lo + (hi - lo) / 2;
                    if f(mid) >= edge {
                        hi = mid;
                    } else {
                        lo = mid + 1;
                    }
                }
                crate::seams::fired("crash_cut_at_repair_buffer_edge");
                searched = (lo.saturating_sub(3)..=(lo + 3).min(len)).collect();
                &searched
            } else {
                &cuts
            };
            for &n in cuts {
                let fault = Fault::Cut { n };
                crate::seams::fired("crash_cut");
                let cls = format!("auth={auth}");
                let cut = Rc::new(image[..n].to_vec());
                let mut rcfg = rcfg0.clone();
                rcfg.budget = 200 * (n as u64) + 20_000;
                let out = s.repair(cut, &rcfg, auth, &ocfg, &Sched::Full);
                ctx.eval();
                let region = lay.as_ref().map(|l| l.class_at(n, len)).unwrap_or("?");
                let anchor = lay.as_ref().is_some_and(|l| l.is_anchor(n));
                if !is02 && n == len {
                    // C05, undamaged archive: any way of not getting to a read-back result is incompleteness
                    let why = if let Some(p) = &out.panic {
                        Some(format!("repair panicked: {p}"))
                    } else if out.src.budget_exhausted {
                        Some("repair exceeded its step budget".to_string())
                    } else if let Err(e) = &out.init {
                        Some(format!("from_config failed: {e}"))
                    } else if !matches!(&out.convert, Some(Ok(_))) {
                        Some(format!("convert_to_archive -> {:?}", out.convert))
                    } else {
                        None
                    };
                    if let Some(why) = why {
                        v.push(Violation::new("intact-incomplete", format!("{}|{cls}", if case.cfg.comp() { "comp" } else { "nocomp" }), format!("undamaged archive ({} bytes, {}, {} recipients): nothing recovered: {why}", len, case.cfg.layer_name(), case.cfg.recipients)).with_fault(fault.clone()));
                    }
                }
                if let Some(p) = &out.panic {
                    if is02 {
                        v.push(Violation::new("repair-panic", panic_class(p), format!("cut at {n}/{len} ({region}), auth={auth}: panic {p}")).with_fault(fault));
                    }
                    prev = None;
                    continue;
                }
                if out.src.budget_exhausted {
                    if is02 {
                        v.push(Violation::new("repair-budget", cls.clone(), format!("cut at {n}/{len}: more than {} seam calls", rcfg.budget)).with_fault(fault));
                    }
                    prev = None;
                    continue;
                }
                if let Err(e) = &out.init {
                    if n >= hlen && is02 {
                        v.push(Violation::new("repair-init-failed", cls.clone(), format!("cut at {n}/{len} (header is {hlen} bytes): from_config failed: {e}")).with_fault(fault));
                    }
                    ctx.sig(format!("{}|{}|{}|{}|init-err", self.id, case.cfg.variant, case.cfg.layer_name(), region));
                    prev = None;
                    continue;
                }
                let status = match &out.convert {
                    Some(Ok(st)) => st.clone(),
                    other => {
                        if is02 {
                            v.push(Violation::new("repair-convert-err", cls.clone(), format!("cut at {n}/{len}: convert_to_archive -> {other:?}")).with_fault(fault));
                        }
                        prev = None;
                        continue;
                    }
                };
                let rec = match read_all(s, &Rc::new(out.out_image.clone()), &plain_rcfg) {
                    Ok(m) => m,
                    Err(e) => {
                        if !is02 && n == len {
                            v.push(Violation::new("intact-incomplete", format!("{}|{cls}", if case.cfg.comp() { "comp" } else { "nocomp" }), format!("undamaged archive ({len} bytes): the repaired archive does not read back: {e}")).with_fault(fault.clone()));
                        }
                        if is02 {
                            v.push(Violation::new("repaired-unreadable", cls.clone(), format!("cut at {n}/{len}: repaired archive does not read back: {e}")).with_fault(fault));
                        }
                        prev = None;
                        continue;
                    }
                };
                ctx.sig(format!("{}|{}|{}|a{}|{}|k{}|{}|u{}", self.id, case.cfg.variant, case.cfg.layer_name(), auth, region, anchor, status.stop, status.unfinished.is_some()));
                let unfinished: Vec<String> = status.unfinished.clone().unwrap_or_default();
                if is02 {
                    for (name, bytes) in &rec {
                        let nm: String = name.chars().take(20).collect();
                        match model.files.get(name) {
                            None => v.push(Violation::new("foreign-name", cls.clone(), format!("cut at {n}/{len}: repaired archive contains {nm:?} which is not an original name")).with_fault(fault.clone())),
                            Some(orig) => {
                                if !orig.starts_with(bytes) {
                                    v.push(Violation::new("not-prefix", cls.clone(), format!("cut at {n}/{len} ({region}): file {nm:?}: {} bytes recovered are not a prefix of the original {} (first difference at {})", bytes.len(), orig.len(), first_diff(bytes, orig))).with_fault(fault.clone()));
                                } else if bytes.len() != orig.len() && !unfinished.contains(name) {
                                    v.push(Violation::new("silently-incomplete", cls.clone(), format!("cut at {n}/{len} ({region}): file {nm:?} has {} of {} bytes but is not reported unfinished (status {})", bytes.len(), orig.len(), status.stop)).with_fault(fault.clone()));
                                }
                            }
                        }
                    }
                    if status.stop == "EndOfOriginalArchiveData" {
                        let all = model.files.iter().all(|(k, o)| rec.get(k) == Some(o));
                        if !all || status.unfinished.is_some() {
                            v.push(Violation::new("false-end-of-data", cls.clone(), format!("cut at {n}/{len} ({region}): status EndOfOriginalArchiveData but not every file is complete (unfinished {:?})", status.unfinished)).with_fault(fault.clone()));
                        }
                    }
                } else {
                    // C05
                    if n == len {
                        let all = model.files.iter().all(|(k, o)| rec.get(k) == Some(o)) && rec.len() == model.files.len();
                        if !all || status.stop != "EndOfOriginalArchiveData" || status.unfinished.is_some() {
                            let missing: Vec<String> = model.files.iter().filter(|(k, o)| rec.get(*k) != Some(*o)).map(|(k, o)| format!("{}:{}/{}", k.chars().take(12).collect::<String>(), rec.get(k).map(Vec::len).unwrap_or(0), o.len())).collect();
                            v.push(Violation::new("intact-incomplete", format!("{}|{cls}", if case.cfg.comp() { "comp" } else { "nocomp" }), format!("undamaged archive ({} bytes, {}): status {} ({}), unfinished {:?}, incomplete files {:?}", len, case.cfg.layer_name(), status.stop, status.detail, status.unfinished, missing)).with_fault(fault.clone()));
                        }
                    }
                    if let Some((pn, prec)) = &prev {
                        for (name, pb) in prec {
                            let now = rec.get(name).map(Vec::len).unwrap_or(0);
                            if now < pb.len() {
                                v.push(Violation::new("not-monotone", format!("{}|{cls}", if case.cfg.comp() { "comp" } else { "nocomp" }), format!("file {:?}: {} bytes from the first {pn} bytes but only {now} from the first {n} ({region})", name.chars().take(20).collect::<String>(), pb.len())).with_fault(fault.clone()));
                            }
                        }
                    }
                    if !case.cfg.comp() && n >= hlen {
                        if let Some(l) = &lay {
                            // ground truth: plaintext prefix the mode may use, parsed by the format model
                            let avail = if case.cfg.enc() {
                                if auth { enc_payload_authenticated(stream_len, n - hlen, chunk) } else { enc_payload_present(stream_len, n - hlen, chunk) }
                            } else {
                                n - hlen
                            };
                            let prefix = &l.dec.enc_plain[..avail.min(l.dec.enc_plain.len())];
                            let (blocks, _) = refmla::parse_blocks(prefix);
                            let truth = refmla::files_from_blocks(prefix, &blocks);
                            ctx.eval();
                            for (name, t) in &truth {
                                let got = rec.get(name).map(Vec::len).unwrap_or(0);
                                if got < t.bytes.len() {
                                    v.push(Violation::new("below-ground-truth", cls.clone(), format!("cut at {n}/{len} ({region}): file {:?}: {} bytes lie in the usable part of the stream, {got} recovered", name.chars().take(20).collect::<String>(), t.bytes.len())).with_fault(fault.clone()));
                                }
                            }
                        }
                    }
                }
                prev = Some((n, rec));
                if v.len() > 40 {
                    return v;
                }
            }
        }
        v
    }
}

/// stable class of a panic: its source location file (never the line) and the message kind
pub fn panic_class(p: &str) -> String {
    let (msg, loc) = p.rsplit_once(" @ ").unwrap_or((p, ""));
    let file = loc.rsplit('/').next().unwrap_or("").split(':').next().unwrap_or("");
    let kind = if msg.contains("overflow") {
        "overflow"
    } else if msg.contains("out of range") || msg.contains("out of bounds") || msg.contains("index") {
        "index"
    } else if msg.contains("Empty") {
        "empty-state"
    } else if msg.contains("unwrap") || msg.contains("expect") {
        "unwrap"
    } else {
        "other"
    };
    format!("panic:{kind}:{file}")
}
