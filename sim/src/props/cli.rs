//! C16 (the CLI extractor never writes outside the output directory) and
//! C17 (the CLI commands agree with each other and the input files):
//! the `mlar` process, built from the working tree, run against a private scratch tree.
use super::common::*;
use crate::model::*;
use crate::rng::Rng;
use crate::runner::{verif_dir, Case, Ctx, Prop, Tier, Violation};
use crate::seams::{Sched, SimSink};
use crate::sut::sut;
use std::collections::BTreeMap;
use std::path::{Path, PathBuf};
use std::process::{Command, Stdio};

pub struct C16;
pub struct C17;

fn mlar_bin() -> PathBuf {
    verif_dir().join(".build").join("mlar-target").join("debug").join("mlar")
}

struct Run {
    code: Option<i32>,
    stdout: Vec<u8>,
    stderr: String,
}

fn mlar(cwd: &Path, args: &[&str], stdin: Option<&[u8]>) -> Run {
    let mut cmd = Command::new(mlar_bin());
    cmd.current_dir(cwd).args(args).stdout(Stdio::piped()).stderr(Stdio::piped());
    cmd.stdin(if stdin.is_some() { Stdio::piped() } else { Stdio::null() });
    let mut child = cmd.spawn().unwrap_or_else(|e| crate::runner::harness_error(&format!("cannot run mlar ({}): {e}", mlar_bin().display())));
    if let Some(data) = stdin {
        use std::io::Write;
        let mut si = child.stdin.take().unwrap();
        let _ = si.write_all(data);
    }
    let out = child.wait_with_output().unwrap_or_else(|e| crate::runner::harness_error(&format!("mlar wait: {e}")));
    crate::seams::log_num("mlar", out.status.code().unwrap_or(-1) as u64, out.stdout.len() as u64);
    Run { code: out.status.code(), stdout: out.stdout, stderr: String::from_utf8_lossy(&out.stderr).chars().take(400).collect() }
}

fn scratch(tag: &str, id: u64) -> PathBuf {
    let p = verif_dir().join(".build").join("scratch").join(format!("{tag}-{}-{id:x}", std::process::id()));
    let _ = std::fs::remove_dir_all(&p);
    std::fs::create_dir_all(&p).unwrap_or_else(|e| crate::runner::harness_error(&format!("scratch dir: {e}")));
    p
}

/// recursive snapshot: relative path -> (kind, size, sha256, mtime ns)
fn snapshot(root: &Path, skip: &Path) -> BTreeMap<String, (char, u64, [u8; 32], u128)> {
    let mut m = BTreeMap::new();
    let mut stack = vec![root.to_path_buf()];
    while let Some(d) = stack.pop() {
        let Ok(rd) = std::fs::read_dir(&d) else { continue };
        for e in rd.flatten() {
            let p = e.path();
            if p == skip {
                continue;
            }
            let Ok(md) = std::fs::symlink_metadata(&p) else { continue };
            let rel = p.strip_prefix(root).unwrap_or(&p).to_string_lossy().to_string();
            let mt = md.modified().ok().and_then(|t| t.duration_since(std::time::UNIX_EPOCH).ok()).map(|d| d.as_nanos()).unwrap_or(0);
            if md.is_dir() {
                m.insert(rel, ('d', 0, [0; 32], 0));
                stack.push(p);
            } else {
                let data = std::fs::read(&p).unwrap_or_default();
                m.insert(rel, ('f', md.len(), sha256(&data), mt));
            }
        }
    }
    m
}

fn write_keys(dir: &Path, key_seed: u64, n: usize) -> (Vec<String>, Vec<String>) {
    let mut pubs = Vec::new();
    let mut privs = Vec::new();
    for i in 0..n {
        let kp = super::c20::keypair_pub(key_seed, i);
        let pp = dir.join(format!("k{key_seed:x}_{i}.pub"));
        let sp = dir.join(format!("k{key_seed:x}_{i}.priv"));
        std::fs::write(&pp, kp.public_as_pem()).unwrap();
        std::fs::write(&sp, kp.private_as_pem()).unwrap();
        pubs.push(pp.to_string_lossy().to_string());
        privs.push(sp.to_string_lossy().to_string());
    }
    (pubs, privs)
}

// ------------------------------------------------------------------ C16

const COMPONENTS: &[&str] = &["a", "b", "dir", "..", ".", "", "x y", "ünï", "…", "-o", "*", "c.txt"];

fn gen_member_name(rng: &mut Rng, collide_ok: bool) -> String {
    let n = rng.range(1, 5);
    let mut parts: Vec<String> = Vec::new();
    for _ in 0..n {
        let c = match rng.below(14) {
            0 => "..".to_string(),
            1 => ".".to_string(),
            2 => String::new(),
            3 => "L".repeat(*rng.pick(&[200usize, 255])),
            4 => format!("u{}-ünï-файл", rng.below(50)),
            _ => {
                if collide_ok {
                    (*rng.pick(COMPONENTS)).to_string()
                } else {
                    format!("{}{}", rng.pick(&["a", "b", "dir", "x y", "c.txt"]), rng.below(1000))
                }
            }
        };
        parts.push(c);
    }
    if !collide_ok && rng.chance(1, 3) {
        // same base name under different directories (distinct normalised paths)
        parts.push("same.txt".to_string());
    }
    let mut s = parts.join("/");
    match rng.below(8) {
        0 => s = format!("/{s}"),
        1 => s = format!("//{s}"),
        2 => s.push('/'),
        3 => s = format!("./{s}"),
        4 => s = format!("../{s}"),
        5 => s = format!("../../../../../../../../{s}"),
        _ => {}
    }
    s
}

/// normalised relative path (Normal components only); None if it has a ".." or normalises to nothing
fn normalise(name: &str) -> Option<String> {
    let mut out: Vec<&str> = Vec::new();
    for c in name.split('/') {
        match c {
            "" | "." => {}
            ".." => return None,
            x => out.push(x),
        }
    }
    if out.is_empty() { None } else { Some(out.join("/")) }
}

impl Prop for C16 {
    fn id(&self) -> &'static str {
        "C16"
    }
    fn level(&self) -> &'static str {
        "exploration"
    }
    fn rule(&self) -> String {
        "run = the `mlar` binary built from the working tree, against a private scratch tree <scratch>/{sandbox/{canary files, sub/canary, out?}, outside-canary, archive.mla}. The archive is written by the library (prod build) with member names drawn from a path grammar: components '..', '.', empty, 200/255-byte, unicode, spaces, '-o', '*', in every position; prefixes '/', '//', './', '../', '../../../../../../../../'; trailing '/'. Command history (seeded): whole-archive extract, extract of one listed name, glob extract ('*' or a seeded pattern), repeated into the same output directory, output directory given relative (cwd = sandbox) or absolute, existing or not, and in eight forms (plain, trailing '/', '.' from inside it, './out', 'sub/../out', a symbolic link to it, a working directory reached through a symbolic link). One run in five starts with symbolic links already in the output directory (to a directory outside it, to a file outside it, to a directory inside it, to a sibling directory and a sibling file whose names begin with the output directory's name - out.bak/, out.log; dangling links, relative and absolute, whose target outside does not exist yet; a link loop) and member names that go through them (`lnkdir/x`, `lnkdir/sub/deeper/x`, `lnkfile`, `inlink/../lnkfile`...); in those runs only files are compared. Oracle 1 (all runs): a recursive snapshot (path, type, size, SHA-256, mtime) of the whole scratch tree outside the output directory is unchanged after every command. Oracle 2 (runs whose member names are collision-free once normalised): exit status 0 and every member without a '..' component exists beneath the output directory at its normalised path with exactly its content; members with '..' produce no file anywhere. distinct_nontrivial = distinct (name shape classes, command kinds, relative/absolute, collision-free?) signatures.".into()
    }
    fn assumptions(&self) -> Vec<String> {
        vec![
            "no fault or schedule dimension in this property: the technique contributes generated stateful histories (one member's directories influence the next member's canonicalisation) and replayable workloads".into(),
            "collision = equal normalised paths, one being a directory prefix of another, or a name that normalises to nothing; on runs with collisions only the no-write-outside clause is judged".into(),
            "the file system is real, in a private directory under /verif/.build/scratch removed after the run".into(),
        ]
    }
    fn real_components(&self) -> Vec<String> {
        vec!["mlar binary (cargo build -p mlar from /repo, no cfg)".into(), "mla prod build (archive creation)".into()]
    }
    fn stubbed_components(&self) -> Vec<String> {
        vec!["none (private real directory tree)".into()]
    }
    fn prod_digest_comparable(&self) -> bool {
        true
    }
    fn runs(&self, tier: Tier) -> u64 {
        match tier {
            Tier::Quick => 700,
            Tier::Thorough => 25_000,
        }
    }
    fn make(&self, seed: u64, run: u64, _tier: Tier) -> Case {
        let mut rng = Rng::derive(seed, "C16", run, "gen");
        let layers = rng.below(4) as u8;
        let cfg = ArcCfg { variant: "prod".into(), layers, level: 1, recipients: usize::from(layers & 1 != 0), reader: 0, rng_seed: 0, key_seed: rng.u64() };
        let collision_free = rng.chance(1, 2);
        let n = rng.range(1, 7) as usize;
        let mut ops = Vec::new();
        let mut seen = std::collections::BTreeSet::new();
        let mut norms: Vec<String> = Vec::new();
        for i in 0..n {
            let name = gen_member_name(&mut rng, !collision_free);
            if !seen.insert(name.clone()) || name.len() > 4000 {
                continue;
            }
            if collision_free {
                match normalise(&name) {
                    Some(nm) => {
                        if norms.iter().any(|o| *o == nm || o.starts_with(&format!("{nm}/")) || nm.starts_with(&format!("{o}/"))) {
                            continue;
                        }
                        norms.push(nm);
                    }
                    None => {
                        // '..' members are fine (skipped by the tool); names normalising to nothing are not collision-free
                        if !name.split('/').any(|c| c == "..") {
                            continue;
                        }
                    }
                }
            }
            ops.push(WOp::Add { name: Name::lit(&name), data: Data::Rand { n: rng.range(0, 300) as usize + 1, seed: rng.u64() ^ i as u64 }, src: Src::exact() });
        }
        // one run in five: the output directory already holds symbolic links (to a directory outside it, to a file
        // outside it, to a directory inside it) and some member names go through them
        let symlinks = rng.chance(1, 5);
        if symlinks {
            for (k, name) in ["lnkdir/x", "lnkdir/sub/deeper/x", "lnkdir/keep", "lnkfile", "inlink/y", "lnkdir/../lnkdir/z", "./lnkfile", "inlink/../lnkfile", "sibling/new", "sibling/keep", "sibling/sub/x", "siblog", "dangling", "inner/dangling2", "dangabs", "loopa", "dangdir/x"].iter().enumerate() {
                if rng.chance(1, 2) && seen.insert((*name).to_string()) {
                    ops.push(WOp::Add { name: Name::lit(name), data: Data::Rand { n: rng.range(1, 300) as usize, seed: rng.u64() ^ (k as u64) << 8 }, src: Src::exact() });
                }
            }
        }
        ops.push(WOp::Finalize);
        let mut case = Case::new("C16", cfg, ops);
        case.params.insert("symlinks".into(), i64::from(symlinks));
        case.params.insert("collision_free".into(), i64::from(collision_free && !symlinks));
        case.params.insert("cmd_seed".into(), (rng.u64() >> 1) as i64);
        case.params.insert("absolute".into(), i64::from(rng.chance(1, 2)));
        case.params.insert("out_exists".into(), i64::from(rng.chance(1, 2)));
        // the FORM of the output directory argument: plain, trailing '/', '.', './out', 'sub/../out', a symbolic link
        // to the directory, and a working directory itself reached through a symbolic link
        case.params.insert("out_form".into(), rng.below(8) as i64);
        case
    }
    fn exec(&self, case: &Case, ctx: &mut Ctx) -> Vec<Violation> {
        let mut v = Vec::new();
        let s = sut("prod");
        let sink = SimSink::new(&Sched::Full);
        let w = s.write(&case.cfg, &case.ops, sink.clone());
        if w.panic.is_some() || w.from_config_err.is_some() || w.results.iter().any(Result::is_err) {
            // names above the library's limits etc.: nothing to extract
            ctx.probe("archive-not-buildable");
            return v;
        }
        let model = model_of(&case.ops);
        let root = scratch("c16", case.param("cmd_seed", 0) as u64);
        let sandbox = root.join("sandbox");
        std::fs::create_dir_all(sandbox.join("sub")).unwrap();
        std::fs::write(sandbox.join("canary.txt"), b"canary-1").unwrap();
        std::fs::write(sandbox.join("sub").join("canary2"), b"canary-2").unwrap();
        std::fs::write(root.join("outside-canary"), b"canary-3").unwrap();
        for n in ["a", "b", "dir", "c.txt"] {
            std::fs::write(root.join(n), b"outside").unwrap();
        }
        std::fs::write(root.join("archive.mla"), sink.data()).unwrap();
        let (_pubs, privs) = write_keys(&root, case.cfg.key_seed, case.cfg.recipients.max(1));
        let out_abs = sandbox.join("out");
        let symlinks = case.param("symlinks", 0) == 1;
        if case.param("out_exists", 0) == 1 || symlinks {
            std::fs::create_dir_all(&out_abs).unwrap();
        }
        if symlinks {
            crate::seams::fired("preexisting_symlinks_in_output_dir");
            std::fs::create_dir_all(root.join("outside-dir")).unwrap();
            std::fs::write(root.join("outside-dir").join("keep"), b"canary-4").unwrap();
            std::fs::create_dir_all(out_abs.join("inner")).unwrap();
            let _ = std::os::unix::fs::symlink("../../outside-dir", out_abs.join("lnkdir"));
            let _ = std::os::unix::fs::symlink("../../outside-canary", out_abs.join("lnkfile"));
            let _ = std::os::unix::fs::symlink("inner", out_abs.join("inlink"));
            // ... and to SIBLINGS of the output directory whose names begin with its name (out.bak/, out.log): outside
            // it, although a comparison of path strings would say inside
            std::fs::create_dir_all(sandbox.join("out.bak")).unwrap();
            std::fs::write(sandbox.join("out.bak").join("keep"), b"canary-5").unwrap();
            std::fs::write(sandbox.join("out.log"), b"canary-6").unwrap();
            let _ = std::os::unix::fs::symlink("../out.bak", out_abs.join("sibling"));
            let _ = std::os::unix::fs::symlink("../out.log", out_abs.join("siblog"));
            // ... DANGLING links (the target does not exist yet: creating the file through the link would create it
            // outside), relative and absolute, at a member's own path and as a directory on its way, and a link LOOP
            let _ = std::os::unix::fs::symlink("../victim.txt", out_abs.join("dangling"));
            let _ = std::os::unix::fs::symlink("../../victim2.txt", out_abs.join("inner").join("dangling2"));
            let _ = std::os::unix::fs::symlink(root.join("victim-abs.txt"), out_abs.join("dangabs"));
            let _ = std::os::unix::fs::symlink("../no-such-dir", out_abs.join("dangdir"));
            let _ = std::os::unix::fs::symlink("loopb", out_abs.join("loopa"));
            let _ = std::os::unix::fs::symlink("loopa", out_abs.join("loopb"));
        }
        // with links in play only FILES are compared (the statement speaks of files; the tool may create an empty
        // directory before it notices that the path leaves the output directory)
        let files_only = |m: BTreeMap<String, (char, u64, [u8; 32], u128)>| -> BTreeMap<String, (char, u64, [u8; 32], u128)> { if symlinks { m.into_iter().filter(|(_, v)| v.0 == 'f').collect() } else { m } };
        let absolute = case.param("absolute", 0) == 1;
        let out_form = case.param("out_form", 0);
        let base = if absolute { format!("{}/", sandbox.to_string_lossy()) } else { String::new() };
        let mut cwd = sandbox.clone();
        let out_arg = match out_form {
            2 => format!("{base}out/"),
            3 => {
                // '.' from inside the output directory
                std::fs::create_dir_all(&out_abs).unwrap();
                cwd = out_abs.clone();
                if absolute { format!("{}/.", out_abs.to_string_lossy()) } else { ".".to_string() }
            }
            4 => format!("{}out", if absolute { format!("{base}./") } else { "./".to_string() }),
            5 => format!("{base}sub/../out"),
            6 => {
                // the argument is a symbolic link to the output directory
                std::fs::create_dir_all(&out_abs).unwrap();
                let _ = std::os::unix::fs::symlink("out", sandbox.join("outlink"));
                format!("{base}outlink")
            }
            7 => {
                // the working directory is reached through a symbolic link
                let _ = std::os::unix::fs::symlink("sandbox", root.join("sblink"));
                cwd = root.join("sblink");
                if absolute { format!("{}/out", cwd.to_string_lossy()) } else { "out".to_string() }
            }
            _ => format!("{base}out"),
        };
        if out_form >= 2 {
            crate::seams::fired("output_dir_argument_in_another_form");
        }
        let archive = root.join("archive.mla").to_string_lossy().to_string();
        let mut crng = Rng::new(case.param("cmd_seed", 1) as u64);
        let ncmd = crng.range(1, 3);
        let collision_free = case.param("collision_free", 0) == 1;
        let mut kinds = Vec::new();
        let before = files_only(snapshot(&root, &out_abs));
        let mut whole_done = false;
        for ci in 0..ncmd {
            let mut args: Vec<String> = vec!["extract".into(), "-i".into(), archive.clone(), "-o".into(), out_arg.clone()];
            if case.cfg.enc() {
                args.push("-k".into());
                args.push(privs[0].clone());
            }
            let kind = if ci == 0 && crng.chance(1, 2) { 0 } else { crng.below(3) };
            let mut expect: Vec<String> = Vec::new();
            match kind {
                0 => {
                    kinds.push("whole");
                    expect = model.order.clone();
                    whole_done = true;
                }
                1 => {
                    kinds.push("name");
                    if let Some(n) = model.order.get(crng.usize_below(model.order.len().max(1))) {
                        // `--` so that names starting with '-' are not taken as options
                        args.push("--".into());
                        args.push(n.clone());
                        expect.push(n.clone());
                    }
                }
                _ => {
                    kinds.push("glob");
                    args.push("-g".into());
                    args.push("--".into());
                    args.push("*".into());
                    expect = model.order.clone();
                }
            }
            let argv: Vec<&str> = args.iter().map(String::as_str).collect();
            let r = mlar(&cwd, &argv, None);
            ctx.eval();
            let after = files_only(snapshot(&root, &out_abs));
            if after != before {
                let changed: Vec<String> = after.iter().filter(|(k, val)| before.get(*k) != Some(*val)).map(|(k, _)| k.clone()).chain(before.keys().filter(|k| !after.contains_key(*k)).cloned()).take(5).collect();
                v.push(Violation::new("wrote-outside-output-dir", format!("{}{}", kinds.last().unwrap(), if symlinks { "|symlinks" } else { "" }), format!("after `mlar {}` (cwd {}): the tree outside the output directory changed: {:?} (members {:?})", args[..args.len().min(8)].join(" "), cwd.strip_prefix(&root).unwrap_or(&cwd).display(), changed, model.order.iter().map(|n| n.chars().take(30).collect::<String>()).collect::<Vec<_>>())));
                break;
            }
            if collision_free {
                ctx.eval();
                if r.code != Some(0) {
                    v.push(Violation::new("extract-failed", kinds.last().unwrap().to_string(), format!("`mlar {}` exited with {:?} on collision-free member names {:?}: {}", args[..args.len().min(8)].join(" "), r.code, model.order, r.stderr)));
                    break;
                }
                for name in &expect {
                    let content = &model.files[name];
                    match normalise(name) {
                        Some(nm) => {
                            let p = out_abs.join(&nm);
                            match std::fs::read(&p) {
                                Ok(got) if got == *content => {}
                                other => {
                                    v.push(Violation::new("member-not-extracted", kinds.last().unwrap().to_string(), format!("member {name:?} should be at out/{nm} with {} bytes: found {:?}", content.len(), other.map(|g| g.len()).map_err(|e| e.to_string()))));
                                }
                            }
                        }
                        None => {}
                    }
                }
            }
        }
        // members with '..' never appear anywhere under the scratch root (beyond the snapshot: inside out as well)
        if whole_done {
            for (name, content) in &model.files {
                if name.split('/').any(|c| c == "..") && content.len() > 8 {
                    let inside = snapshot(&out_abs, Path::new("/nonexistent"));
                    if inside.values().any(|(k, _, h, _)| *k == 'f' && *h == sha256(content)) {
                        v.push(Violation::new("dotdot-member-extracted", "whole", format!("member {name:?} (contains '..') was extracted")));
                    }
                }
            }
        }
        let shapes: std::collections::BTreeSet<&str> = model.order.iter().flat_map(|n| {
            let mut v = Vec::new();
            if n.starts_with('/') { v.push("abs"); }
            if n.split('/').any(|c| c == "..") { v.push("dotdot"); }
            if n.split('/').any(|c| c == ".") { v.push("dot"); }
            if n.contains("//") || n.ends_with('/') { v.push("empty-comp"); }
            if n.len() > 190 { v.push("long"); }
            if !n.is_ascii() { v.push("unicode"); }
            v
        }).collect();
        ctx.sig(format!("{}|{}|abs{}|of{}|cf{}|sl{}|{}", kinds.join("+"), case.cfg.layer_name(), absolute, out_form, collision_free, symlinks, shapes.into_iter().collect::<Vec<_>>().join("+")));
        let _ = std::fs::remove_dir_all(&root);
        v
    }
}

// ------------------------------------------------------------------ C17

fn gen_tree(rng: &mut Rng, root: &Path, allow_big: bool) -> BTreeMap<String, Vec<u8>> {
    // relative paths (as given to `create`) -> content
    let mut files = BTreeMap::new();
    // 1-6 files; one tree in twelve holds 70..150 tiny files in one directory (more than any pool of open files)
    let crowd = rng.chance(1, 12);
    let n = if crowd { rng.range(70, 150) } else { rng.range(1, 6) };
    for i in 0..n {
        let dir = match rng.below(6) {
            0 => "tree".to_string(),
            5 => format!("tree/{}", (0..rng.range(2, 4)).map(|k| format!("a rather long directory name, level {k} of {i}")).collect::<Vec<_>>().join("/")),
            1 => "tree/nested/deeper".to_string(),
            2 => "tree/with space".to_string(),
            3 => "tree/ünï".to_string(),
            _ => format!("tree/d{i}"),
        };
        let name = match if crowd { 9 } else { rng.below(6) } {
            // names at the lengths where tar headers change form: 100 / 101 / 155 / 255 bytes, no separator inside
            4 => format!("{}{i}", "n".repeat(*rng.pick(&[99usize, 100, 154, 200, 253]) - 1)),
            5 => format!("q{i}[x]?*.bin"),
            0 => format!("f{i}.txt"),
            1 => format!("файл {i}"),
            2 => format!("f {i} (copy).bin"),
            _ => format!("f{i}"),
        };
        let size = match if crowd { 9 } else { rng.below(13) } {
            // exact unit boundaries of size strings and of tar's 512-byte records
            10 => *rng.pick(&[511usize, 512, 513, 1023, 1024, 1025, 1_048_575, 1_048_576, 1_048_577]),
            11 => 512 * rng.range(1, 40) as usize,
            12 if allow_big && rng.chance(1, 4) => (9 << 20) + rng.below(8 << 20) as usize,
            0 => 0,
            1 => 128 * 1024 - rng.below(3) as usize,
            2 => 128 * 1024 + rng.below(40) as usize,
            3 if allow_big && rng.chance(1, 3) => 4 * 1024 * 1024 + rng.below(3) as usize - 1,
            _ => rng.range(1, 5000) as usize,
        };
        let data = if rng.chance(1, 2) { Data::Rand { n: size, seed: rng.u64() } } else { Data::Text { n: size, seed: rng.u64() } }.bytes();
        let rel = format!("{dir}/{name}");
        std::fs::create_dir_all(root.join(&dir)).unwrap();
        std::fs::write(root.join(&rel), &data).unwrap();
        files.insert(rel, data);
    }
    // one tree in three has SIBLINGS whose names begin with the directory's name (tree.bak/, tree2/, a file tree-old):
    // other inputs, given to `create` next to the directory
    if rng.chance(1, 3) {
        for (rel, n) in [("tree.bak/s0.txt", 300usize), ("tree2/inner/s1", 5000), ("tree-old", 77)] {
            if rng.chance(2, 3) {
                let data = Data::Text { n, seed: rng.u64() }.bytes();
                if let Some(parent) = std::path::Path::new(rel).parent() {
                    std::fs::create_dir_all(root.join(parent)).unwrap();
                }
                std::fs::write(root.join(rel), &data).unwrap();
                files.insert(rel.to_string(), data);
            }
        }
    }
    // one tree in three also holds symbolic links to some of its regular files (what `create` stores for such a
    // path is the file behind the link, under the link's own path)
    if rng.chance(1, 3) {
        let targets: Vec<(String, Vec<u8>)> = files.iter().map(|(k, v)| (k.clone(), v.clone())).collect();
        for k in 0..rng.range(1, 2) {
            let (t, data) = rng.pick(&targets).clone();
            let dir = std::path::Path::new(&t).parent().map(|p| p.to_string_lossy().to_string()).unwrap_or_else(|| "tree".into());
            let rel = if rng.chance(1, 2) { format!("{dir}/link{k} to file") } else { format!("tree/link{k}.lnk") };
            if files.contains_key(&rel) {
                continue;
            }
            if std::os::unix::fs::symlink(root.join(&t), root.join(&rel)).is_ok() {
                crate::seams::fired("symlink_to_file_in_input_tree");
                files.insert(rel, data);
            }
        }
        // ... and, half of the time, a link to one of its sub-directories: `create` walks into it, so every file
        // below the target is also stored under the link's path
        if rng.chance(1, 2) {
            let dirs: std::collections::BTreeSet<String> = files.keys().filter_map(|k| std::path::Path::new(k).parent().map(|p| p.to_string_lossy().to_string())).filter(|d| d.starts_with("tree/")).collect();
            if let Some(d) = dirs.iter().next().cloned() {
                let link = "tree/dir link".to_string();
                if std::os::unix::fs::symlink(root.join(&d), root.join(&link)).is_ok() {
                    crate::seams::fired("symlink_to_directory_in_input_tree");
                    let below: Vec<(String, Vec<u8>)> = files.iter().filter(|(k, _)| k.starts_with(&format!("{d}/"))).map(|(k, v)| (format!("{link}/{}", &k[d.len() + 1..]), v.clone())).collect();
                    for (k, v) in below {
                        files.insert(k, v);
                    }
                }
            }
        }
    }
    files
}

impl Prop for C17 {
    fn id(&self) -> &'static str {
        "C17"
    }
    fn level(&self) -> &'static str {
        "exploration"
    }
    fn rule(&self) -> String {
        "run = a seeded file tree (empty files, nested directories, unicode and spaces in names, sizes around 128 KiB and 4 MiB, at the unit boundaries 511..513, 1023..1025, 2^20-1..2^20+1, multiples of 512, now and then 9..17 MiB; names of 100 / 101 / 155 / 201 / 254 bytes without a separator and names with glob metacharacters; one tree in twelve with 70..150 tiny files; one tree in three with siblings named like the directory (tree.bak/, tree2/, tree-old) given to create next to it; one tree in three with symbolic links to some of its files - stored as the file behind the link - and half of those with a link to one of its sub-directories, walked like a directory) in a private scratch directory, X25519 key files written in PEM, and a command pipeline of the `mlar` binary built from the working tree: create (seeded layers/level/1..3 recipients; paths given as files, as a directory, or through stdin) then list, list -vv, cat of each file, whole extract, extract of one name, to-tar, and a seeded chain of repair / convert steps to other layer and key choices, re-checked after each step. Model = the file tree: the listing is exactly the given paths; every route returns each file's exact bytes; list -vv shows the true SHA-256 and a size string consistent with the true size; tar entries have the right names, sizes and contents. Key faults: wrong key, missing key for an encrypted archive, key given for an unencrypted archive: the command exits non-zero and leaves no output content (file absent or empty). distinct_nontrivial = distinct (layers, level bucket, recipients, create form, chain of steps, key fault, outcome) signatures.".into()
    }
    fn assumptions(&self) -> Vec<String> {
        vec![
            "stdout/stderr wording, directory traversal order and HashMap order are ignored; only exit status, produced bytes and listings are judged; a panic exit counts as non-zero".into(),
            "the file system is real, in a private directory; its I/O errors are not injected".into(),
        ]
    }
    fn real_components(&self) -> Vec<String> {
        vec!["mlar binary (cargo build -p mlar from /repo, no cfg)".into(), "curve25519-parser (key files)".into()]
    }
    fn stubbed_components(&self) -> Vec<String> {
        vec!["none (private real directory tree)".into()]
    }
    fn prod_digest_comparable(&self) -> bool {
        true
    }
    fn runs(&self, tier: Tier) -> u64 {
        match tier {
            Tier::Quick => 400,
            Tier::Thorough => 8000,
        }
    }
    fn make(&self, seed: u64, run: u64, _tier: Tier) -> Case {
        let mut rng = Rng::derive(seed, "C17", run, "gen");
        let layers = rng.below(4) as u8;
        let recipients = if layers & 1 != 0 { rng.range(1, 3) as usize } else { 0 };
        let cfg = ArcCfg { variant: "prod".into(), layers, level: *rng.pick(&[0u32, 1, 3, 5, 9, 11]), recipients, reader: if recipients > 0 { rng.usize_below(recipients) } else { 0 }, rng_seed: 0, key_seed: rng.u64() };
        let mut case = Case::new("C17", cfg, vec![]);
        case.params.insert("tree_seed".into(), (rng.u64() >> 1) as i64);
        case.params.insert("create_form".into(), rng.below(3) as i64);
        case.params.insert("chain_seed".into(), (rng.u64() >> 1) as i64);
        case.params.insert("chain_level_max".into(), *rng.pick(&[3i64, 5, 5, 11]));
        case
    }
    fn exec(&self, case: &Case, ctx: &mut Ctx) -> Vec<Violation> {
        let mut v = Vec::new();
        let root = scratch("c17", case.param("tree_seed", 0) as u64);
        let mut trng = Rng::new(case.param("tree_seed", 1) as u64);
        let big_ok = case.cfg.level <= 5 && case.param("chain_level_max", 11) <= 5;
        let files = gen_tree(&mut trng, &root, big_ok);
        let (pubs, privs) = write_keys(&root, case.cfg.key_seed, 4);
        let layer_args = |layers: u8, level: u32, recips: &[usize]| -> Vec<String> {
            let mut a = Vec::new();
            if layers == 0 {
                // no layer: an explicit empty choice is not expressible; use compress only at level 0 as the "weakest"
                a.push("-l".into());
                a.push("compress".into());
                a.push("-q".into());
                a.push("0".into());
                return a;
            }
            if layers & 2 != 0 {
                a.push("-l".into());
                a.push("compress".into());
                a.push("-q".into());
                a.push(level.to_string());
            }
            if layers & 1 != 0 {
                a.push("-l".into());
                a.push("encrypt".into());
                for r in recips {
                    a.push("-p".into());
                    a.push(pubs[*r].clone());
                }
            }
            a
        };
        let run = |args: &[String], stdin: Option<&[u8]>| -> Run {
            let argv: Vec<&str> = args.iter().map(String::as_str).collect();
            mlar(&root, &argv, stdin)
        };
        let s = |x: &str| x.to_string();
        // ---- create
        let recips: Vec<usize> = (0..case.cfg.recipients).collect();
        let mut args = vec![s("create"), s("-o"), s("a.mla")];
        args.extend(layer_args(case.cfg.layers, case.cfg.level, &recips));
        let form = case.param("create_form", 0);
        let mut stdin: Option<Vec<u8>> = None;
        match form {
            0 => args.extend(files.keys().cloned()),
            1 => {
                // the top-level entries: the directory first, then its siblings (directories or files)
                args.push(s("tree"));
                let mut tops: Vec<String> = files.keys().map(|k| k.split('/').next().unwrap_or("").to_string()).filter(|t| t != "tree").collect();
                tops.sort();
                tops.dedup();
                args.extend(tops);
            }
            _ => {
                args.push(s("-"));
                stdin = Some(files.keys().map(|k| format!("{k}\n")).collect::<String>().into_bytes());
            }
        }
        let r = run(&args, stdin.as_deref());
        ctx.eval();
        if r.code != Some(0) {
            v.push(Violation::new("cli-create-failed", format!("form{form}"), format!("mlar {:?} -> {:?}: {}", &args[..args.len().min(10)], r.code, r.stderr)));
            let _ = std::fs::remove_dir_all(&root);
            return v;
        }
        // the archive under test, its layers and the key that opens it (index into privs)
        let mut cur = s("a.mla");
        let mut cur_enc = case.cfg.layers & 1 != 0;
        let mut cur_key = case.cfg.reader;
        let mut crng = Rng::new(case.param("chain_seed", 1) as u64);
        let mut chain: Vec<&'static str> = vec![];
        let steps = crng.range(0, 3);
        for step in 0..=steps {
            // the right key alone, or after a decoy key that is no recipient (every candidate must be tried)
            let key_args: Vec<String> = if !cur_enc {
                vec![]
            } else if crng.chance(1, 2) {
                vec![s("-k"), privs[3].clone(), s("-k"), privs[cur_key].clone()]
            } else {
                vec![s("-k"), privs[cur_key].clone()]
            };
            let what = format!("archive {cur} after [{}]", chain.join(" "));
            // list
            let mut a = vec![s("list"), s("-i"), cur.clone()];
            a.extend(key_args.clone());
            let r = run(&a, None);
            ctx.eval();
            let listed: Vec<String> = String::from_utf8_lossy(&r.stdout).lines().map(str::to_string).collect();
            let want: Vec<String> = files.keys().cloned().collect();
            if r.code != Some(0) || listed != want {
                v.push(Violation::new("cli-listing", chain.join("+"), format!("{what}: list -> exit {:?}, {} names, expected {} ({})", r.code, listed.len(), want.len(), r.stderr)));
                break;
            }
            // list -vv
            let mut a = vec![s("list"), s("-vv"), s("-i"), cur.clone()];
            a.extend(key_args.clone());
            let r = run(&a, None);
            ctx.eval();
            let text = String::from_utf8_lossy(&r.stdout).to_string();
            for (name, data) in &files {
                let h = hex::encode(sha256(data));
                let line = text.lines().find(|l| l.starts_with(&format!("{name} - ")));
                match line {
                    Some(l) if l.ends_with(&format!("({h})")) => {
                        // size string: leading number and unit roughly equal to the true size
                        let mid = l[name.len() + 3..l.len() - h.len() - 2].trim();
                        let mut it = mid.split_whitespace();
                        let num: f64 = it.next().and_then(|x| x.parse().ok()).unwrap_or(-1.0);
                        let mult = match it.next().unwrap_or("") {
                            "B" => 1.0,
                            "kB" => 1e3,
                            "MB" => 1e6,
                            "GB" => 1e9,
                            _ => -1.0,
                        };
                        let shown = num * mult;
                        let truth = data.len() as f64;
                        if mult < 0.0 || (shown - truth).abs() > truth * 0.006 + 1.0 {
                            v.push(Violation::new("cli-verbose-listing", "size", format!("{what}: list -vv shows {mid:?} for {name:?} of {} bytes", data.len())));
                        }
                    }
                    other => v.push(Violation::new("cli-verbose-listing", "hash", format!("{what}: list -vv line for {name:?}: {other:?}, expected hash {h}"))),
                }
            }
            // cat each file (of a crowd: the first, the last and every twelfth)
            let nfiles = files.len();
            for (k, (name, data)) in files.iter().enumerate() {
                if nfiles > 20 && k % 12 != 0 && k + 1 != nfiles {
                    continue;
                }
                let mut a = vec![s("cat"), s("-i"), cur.clone()];
                a.extend(key_args.clone());
                a.push(name.clone());
                let r = run(&a, None);
                ctx.eval();
                if r.code != Some(0) || r.stdout != *data {
                    v.push(Violation::new("cli-cat", chain.join("+"), format!("{what}: cat {name:?} -> exit {:?}, {} bytes, expected {}", r.code, r.stdout.len(), data.len())));
                }
            }
            // extract whole + one name
            for mode in 0..2 {
                let out = format!("out{step}_{mode}");
                let mut a = vec![s("extract"), s("-i"), cur.clone(), s("-o"), out.clone()];
                a.extend(key_args.clone());
                let chosen: Vec<&String> = if mode == 0 { files.keys().collect() } else { files.keys().take(1).collect() };
                if mode == 1 {
                    a.push(chosen[0].clone());
                }
                let r = run(&a, None);
                ctx.eval();
                for name in &chosen {
                    let got = std::fs::read(root.join(&out).join(name.as_str()));
                    if r.code != Some(0) || got.as_ref().ok() != Some(&files[*name]) {
                        v.push(Violation::new("cli-extract", format!("mode{mode}"), format!("{what}: extract ({}) -> exit {:?}; {name:?}: {:?} bytes, expected {}", if mode == 0 { "whole" } else { "one name" }, r.code, got.map(|g| g.len()).map_err(|e| e.to_string()), files[*name].len())));
                    }
                }
                if mode == 1 {
                    // nothing else extracted
                    let snap = snapshot(&root.join(&out), Path::new("/nonexistent"));
                    let nfiles = snap.values().filter(|x| x.0 == 'f').count();
                    if nfiles != 1 {
                        v.push(Violation::new("cli-extract", "mode1-extra", format!("{what}: extract of one name produced {nfiles} files")));
                    }
                }
            }
            // to-tar
            let tarp = format!("t{step}.tar");
            let mut a = vec![s("to-tar"), s("-i"), cur.clone(), s("-o"), tarp.clone()];
            a.extend(key_args.clone());
            let r = run(&a, None);
            ctx.eval();
            let mut tar_files: BTreeMap<String, Vec<u8>> = BTreeMap::new();
            let mut tar_ok = r.code == Some(0);
            if let Ok(f) = std::fs::File::open(root.join(&tarp)) {
                let mut ar = tar::Archive::new(f);
                match ar.entries() {
                    Ok(es) => {
                        for e in es {
                            match e {
                                Ok(mut e) => {
                                    let p = e.path().map(|p| p.to_string_lossy().to_string()).unwrap_or_default();
                                    let hs = e.header().size().unwrap_or(u64::MAX);
                                    let mut d = Vec::new();
                                    let _ = std::io::Read::read_to_end(&mut e, &mut d);
                                    if hs != d.len() as u64 {
                                        tar_ok = false;
                                    }
                                    tar_files.insert(p, d);
                                }
                                Err(_) => tar_ok = false,
                            }
                        }
                    }
                    Err(_) => tar_ok = false,
                }
            } else {
                tar_ok = false;
            }
            if !tar_ok || tar_files != files {
                v.push(Violation::new("cli-to-tar", chain.join("+"), format!("{what}: to-tar -> exit {:?}, {} entries, expected {} ({})", r.code, tar_files.len(), files.len(), r.stderr)));
            }
            if !v.is_empty() || step == steps {
                break;
            }
            // ---- next step of the chain: repair or convert into another layer / key choice
            let nl = crng.below(4) as u8;
            let nk = crng.usize_below(3);
            let next = format!("s{step}.mla");
            let is_repair = crng.chance(1, 2);
            let mut a = vec![s(if is_repair { "repair" } else { "convert" }), s("-i"), cur.clone(), s("-o"), next.clone()];
            a.extend(key_args.clone());
            a.extend(layer_args(nl, crng.below(case.param("chain_level_max", 11) as u64 + 1) as u32, &[nk]));
            let r = run(&a, None);
            ctx.eval();
            chain.push(if is_repair { "repair" } else { "convert" });
            if r.code != Some(0) {
                v.push(Violation::new("cli-chain-step-failed", chain.join("+"), format!("{what}: mlar {:?} -> {:?}: {}", &a[..a.len().min(12)], r.code, r.stderr)));
                break;
            }
            cur = next;
            cur_enc = nl & 1 != 0;
            cur_key = nk;
        }
        // ---- key faults on the final archive
        if v.is_empty() {
            // key #3 is never a recipient
            let wrong = 3;
            let faults: Vec<(&str, Vec<String>)> = if cur_enc { vec![("wrong-key", vec![s("-k"), privs[wrong].clone()]), ("missing-key", vec![])] } else { vec![("key-for-unencrypted", vec![s("-k"), privs[0].clone()])] };
            for (fname, kargs) in faults {
                for cmd in ["cat", "extract", "to-tar", "convert", "list"] {
                    let outp = format!("kf-{fname}-{cmd}");
                    let mut a = vec![s(cmd), s("-i"), cur.clone()];
                    a.extend(kargs.clone());
                    match cmd {
                        "cat" => {
                            a.push(s("-o"));
                            a.push(outp.clone());
                            a.push(files.keys().next().unwrap().clone());
                        }
                        "extract" | "to-tar" => {
                            a.push(s("-o"));
                            a.push(outp.clone());
                        }
                        "convert" => {
                            a.push(s("-o"));
                            a.push(outp.clone());
                            a.push(s("-l"));
                            a.push(s("compress"));
                        }
                        _ => {}
                    }
                    let r = run(&a, None);
                    ctx.eval();
                    crate::seams::fired(match fname {
                        "wrong-key" => "cli_wrong_key",
                        "missing-key" => "cli_missing_key",
                        _ => "cli_key_for_unencrypted",
                    });
                    let p = root.join(&outp);
                    let content = if p.is_dir() { snapshot(&p, Path::new("/nonexistent")).values().filter(|x| x.0 == 'f' && x.1 > 0).count() as u64 } else { std::fs::metadata(&p).map(|m| m.len()).unwrap_or(0) };
                    if r.code == Some(0) {
                        v.push(Violation::new("cli-key-fault-accepted", format!("{fname}|{cmd}"), format!("mlar {cmd} with {fname} on {cur} (encrypted: {cur_enc}) exited 0")));
                    } else if content > 0 || (cmd == "list" && !r.stdout.is_empty()) {
                        v.push(Violation::new("cli-key-fault-output", format!("{fname}|{cmd}"), format!("mlar {cmd} with {fname} failed (exit {:?}) but left output content ({content} bytes/files)", r.code)));
                    }
                }
            }
        }
        ctx.sig(format!("{}|l{}|r{}|form{}|{}|enc{}", case.cfg.layer_name(), case.cfg.level / 4, case.cfg.recipients, form, chain.join("+"), cur_enc));
        let _ = std::fs::remove_dir_all(&root);
        v
    }
}
