pub mod common;
pub mod c01;

use crate::runner::Prop;

pub fn all() -> Vec<&'static dyn Prop> {
    vec![&c01::C01]
}
