pub mod common;
pub mod c01;
pub mod c03;
pub mod c04;
pub mod c06;
pub mod c07;
pub mod c08;
pub mod c09;
pub mod c10;
pub mod c11;
pub mod c12;
pub mod c13;
pub mod c14;
pub mod c15;
pub mod c20;
pub mod cli;
pub mod repair;

use crate::runner::Prop;

pub fn all() -> Vec<&'static dyn Prop> {
    vec![&c01::C01, &c03::C03, &c04::C04, &repair::C02, &repair::C05, &c06::C06, &c07::C07, &c08::C08, &c09::C09, &c10::C10, &c11::C11, &c12::C12, &c13::C13, &c14::C14, &c15::C15, &c20::C20, &cli::C16, &cli::C17]
}
