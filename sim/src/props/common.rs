//! Helpers shared by the scenarios.
use crate::model::{ArcCfg, Model};
use crate::runner::{Ctx, Violation};
use crate::sut::{ROp, RRes, ReadCfg, Sut};
use sha2::{Digest, Sha256};
use std::collections::BTreeMap;
use std::rc::Rc;

pub fn sha256(b: &[u8]) -> [u8; 32] {
    let mut h = Sha256::new();
    h.update(b);
    h.finalize().into()
}

/// alignment class of a length against a boundary
pub fn align_class(len: usize, b: usize) -> &'static str {
    if b == 0 {
        return "-";
    }
    let r = len % b;
    if len == 0 {
        "empty"
    } else if r == 0 {
        "=0"
    } else if r == 1 {
        "+1"
    } else if r == b - 1 {
        "-1"
    } else if r < 16 {
        "<16"
    } else if r == 16 {
        "=16"
    } else if r == 17 {
        "=17"
    } else {
        "mid"
    }
}

pub fn header_len(cfg: &ArcCfg) -> usize {
    if cfg.enc() { 57 + 48 * cfg.recipients } else { 9 }
}

/// plaintext length of the encryption layer from the stored stream length
pub fn enc_plain_len(stream_len: usize, chunk: usize) -> usize {
    let ct = chunk + 16;
    let full = stream_len / ct;
    let rem = stream_len % ct;
    full * chunk + rem.saturating_sub(16)
}

pub fn short(b: &[u8]) -> String {
    if b.len() <= 24 { hex::encode(b) } else { format!("{}..({} bytes)", hex::encode(&b[..24]), b.len()) }
}

pub fn first_diff(a: &[u8], b: &[u8]) -> usize {
    a.iter().zip(b.iter()).position(|(x, y)| x != y).unwrap_or(a.len().min(b.len()))
}

/// Full read-back of an image against the abstract model: listing, per-file
/// size / bytes / hash. `clause_prefix` distinguishes scenarios.
pub fn check_readback(sut: &dyn Sut, image: &Rc<Vec<u8>>, rcfg: &ReadCfg, model: &Model, read_buf: usize, ctx: &mut Ctx, pfx: &str) -> Vec<Violation> {
    let mut v = Vec::new();
    let mut ops = vec![ROp::List];
    for name in &model.order {
        ops.push(ROp::Open { name: name.clone() });
        ops.push(ROp::ReadAll { n: read_buf });
        ops.push(ROp::Hash { name: name.clone() });
    }
    let out = sut.read(image.clone(), rcfg, &ops);
    ctx.eval();
    if let Some(p) = &out.panic {
        v.push(Violation::new(&format!("{pfx}-panic"), "read", format!("reader panicked: {p}")));
        return v;
    }
    if let Err(e) = &out.open {
        v.push(Violation::new(&format!("{pfx}-open-failed"), "open", format!("valid archive does not open: {e}")));
        return v;
    }
    let mut it = out.results.iter();
    match it.next() {
        Some(RRes::Names(names)) => {
            let mut want: Vec<String> = model.files.keys().cloned().collect();
            want.sort();
            ctx.eval();
            if *names != want {
                v.push(Violation::new(&format!("{pfx}-listing"), "list", format!("listing {:?} != model {:?}", names.iter().map(|s| s.chars().take(20).collect::<String>()).collect::<Vec<_>>(), want.iter().map(|s| s.chars().take(20).collect::<String>()).collect::<Vec<_>>())));
            }
        }
        other => v.push(Violation::new(&format!("{pfx}-listing"), "list", format!("list_files: {other:?}"))),
    }
    for name in &model.order {
        let want = &model.files[name];
        let nm: String = name.chars().take(20).collect();
        ctx.evals_n(3);
        match it.next() {
            Some(RRes::Opened { size }) => {
                if *size != want.len() as u64 {
                    v.push(Violation::new(&format!("{pfx}-size"), "size", format!("file {nm:?}: size {size} != {}", want.len())));
                }
            }
            other => {
                v.push(Violation::new(&format!("{pfx}-get-file"), "open-file", format!("file {nm:?}: get_file -> {other:?}")));
                // the two results that follow are NoFile / hash
            }
        }
        match it.next() {
            Some(RRes::Bytes(b)) => {
                if b != want {
                    let d = first_diff(b, want);
                    v.push(Violation::new(&format!("{pfx}-content"), "content", format!("file {nm:?}: got {} bytes, want {}, first difference at {d}", b.len(), want.len())));
                }
            }
            Some(RRes::NoFile) => {}
            other => v.push(Violation::new(&format!("{pfx}-read"), "read", format!("file {nm:?}: read -> {:?}", other.map(|o| format!("{o:?}").chars().take(200).collect::<String>())))),
        }
        match it.next() {
            Some(RRes::Hash(h)) => {
                if *h != sha256(want) {
                    v.push(Violation::new(&format!("{pfx}-hash"), "hash", format!("file {nm:?}: stored hash {} != sha256 of content", hex::encode(h))));
                }
            }
            other => v.push(Violation::new(&format!("{pfx}-hash"), "hash", format!("file {nm:?}: get_hash -> {other:?}"))),
        }
    }
    v
}

/// Read every listed file of an image (used on repaired archives): name -> bytes
pub fn read_all(sut: &dyn Sut, image: &Rc<Vec<u8>>, rcfg: &ReadCfg) -> Result<BTreeMap<String, Vec<u8>>, String> {
    let out = sut.read(image.clone(), rcfg, &[ROp::List]);
    if let Some(p) = out.panic {
        return Err(format!("panic: {p}"));
    }
    out.open?;
    let names = match out.results.first() {
        Some(RRes::Names(n)) => n.clone(),
        other => return Err(format!("list: {other:?}")),
    };
    let mut ops = Vec::new();
    for n in &names {
        ops.push(ROp::Open { name: n.clone() });
        ops.push(ROp::ReadAll { n: 4096 });
        ops.push(ROp::Hash { name: n.clone() });
    }
    let out = sut.read(image.clone(), rcfg, &ops);
    if let Some(p) = out.panic {
        return Err(format!("panic: {p}"));
    }
    let mut m = BTreeMap::new();
    let mut it = out.results.into_iter();
    for n in names {
        let nm: String = n.chars().take(20).collect();
        let size = match it.next() {
            Some(RRes::Opened { size }) => size,
            other => return Err(format!("open {nm:?}: {other:?}")),
        };
        let bytes = match it.next() {
            Some(RRes::Bytes(b)) => b,
            other => return Err(format!("read {nm:?}: {:?}", other.map(|o| format!("{o:?}").chars().take(200).collect::<String>()))),
        };
        if size != bytes.len() as u64 {
            return Err(format!("file {nm:?}: size field {size} but {} bytes read", bytes.len()));
        }
        match it.next() {
            Some(RRes::Hash(h)) => {
                if h != sha256(&bytes) {
                    return Err(format!("file {nm:?}: stored hash differs from content"));
                }
            }
            other => return Err(format!("hash {nm:?}: {other:?}")),
        }
        m.insert(n, bytes);
    }
    Ok(m)
}

/// Variant mix: mostly scaled variants (cheap, every boundary reachable), some production-size runs
pub fn pick_variant(rng: &mut crate::rng::Rng, tier: crate::runner::Tier) -> &'static str {
    let x = rng.below(100);
    match tier {
        crate::runner::Tier::Quick => match x {
            0..=54 => "s0",
            55..=93 => "s1",
            94..=97 => "prodv",
            _ => "prod",
        },
        crate::runner::Tier::Thorough => match x {
            0..=49 => "s0",
            50..=81 => "s1",
            82..=93 => "prodv",
            _ => "prod",
        },
    }
}

// ------------------------------------------------------------------ layout helpers (from the format model)

use crate::refmla;

/// stored offset (relative to the start of the encrypted stream) of plaintext offset `p`
pub fn enc_stored_off(p: usize, chunk: usize) -> usize {
    p + 16 * (p / chunk)
}

/// payload bytes present in the first `n` bytes of an encrypted stream whose original length is `orig_len`
pub fn enc_payload_present(orig_len: usize, n: usize, chunk: usize) -> usize {
    refmla::chunk_ranges(orig_len, chunk).iter().map(|r| r.payload.min(n.saturating_sub(r.start))).sum()
}

/// payload bytes in chunks that are completely present (payload + tag) in the first `n` bytes
pub fn enc_payload_authenticated(orig_len: usize, n: usize, chunk: usize) -> usize {
    let mut s = 0;
    for r in refmla::chunk_ranges(orig_len, chunk) {
        if r.start + r.payload + r.tag <= n {
            s += r.payload;
        } else {
            break;
        }
    }
    s
}

pub struct Layout {
    pub dec: refmla::Decoded,
    /// sorted (image offset, region class)
    pub regions: Vec<(usize, &'static str)>,
    /// structural anchors (image offsets)
    pub anchors: Vec<usize>,
}

/// Layout map of a complete image written by the library
pub fn layout_of(image: &[u8], cfg: &ArcCfg, chunk: usize, block: usize) -> Result<Layout, String> {
    let key = crate::model::key_bytes(cfg.key_seed, cfg.reader);
    let dec = refmla::decode(image, if cfg.enc() { Some(&key) } else { None }, refmla::Params { chunk, block })?;
    let h = dec.header.len;
    let mut regions: Vec<(usize, &'static str)> = vec![(0, "header")];
    let mut anchors = vec![0, h, image.len()];
    let to_image = |p: usize| -> usize { if cfg.enc() { h + enc_stored_off(p, chunk) } else { h + p } };
    if cfg.enc() {
        for r in &dec.chunks {
            regions.push((h + r.start, "chunk-payload"));
            regions.push((h + r.start + r.payload, "chunk-tag"));
            anchors.push(h + r.start);
            anchors.push(h + r.start + r.payload);
        }
    }
    if let Some(c) = &dec.comp {
        for (off, _sz, _u) in &c.blocks {
            anchors.push(to_image(*off));
            if !cfg.enc() {
                regions.push((h + off, "comp-block"));
            }
        }
        anchors.push(to_image(c.sizes_at));
        if !cfg.enc() {
            regions.push((h + c.sizes_at, "sizes-footer"));
        }
    } else {
        for b in &dec.blocks {
            anchors.push(to_image(b.off()));
            if !cfg.enc() {
                let cls = match b {
                    refmla::FBlock::Start { .. } => "blk-start",
                    refmla::FBlock::Content { .. } => "blk-content",
                    refmla::FBlock::End { .. } => "blk-end",
                    refmla::FBlock::EndOfArchive { .. } => "blk-marker",
                };
                regions.push((h + b.off(), cls));
                if let refmla::FBlock::Content { data_at, .. } = b {
                    regions.push((h + data_at, "blk-content-data"));
                }
            }
        }
        anchors.push(to_image(dec.index.at));
        if !cfg.enc() {
            regions.push((h + dec.index.at, "index"));
        }
    }
    regions.sort();
    anchors.sort();
    anchors.dedup();
    Ok(Layout { dec, regions, anchors })
}

impl Layout {
    /// region class of image offset `n` (the byte at n, or "end")
    pub fn class_at(&self, n: usize, len: usize) -> &'static str {
        if n >= len {
            return "end";
        }
        match self.regions.binary_search_by(|r| r.0.cmp(&n)) {
            Ok(i) => self.regions[i].1,
            Err(0) => "header",
            Err(i) => self.regions[i - 1].1,
        }
    }
    pub fn is_anchor(&self, n: usize) -> bool {
        self.anchors.binary_search(&n).is_ok()
    }
}

// ------------------------------------------------------------------ stored-image faults

use crate::runner::Fault;

/// Apply a stored-image fault. `hlen`/`chunk` give the geometry of the
/// encrypted stream for chunk-level edits; `other` is the second archive for splices.
pub fn apply_fault(image: &[u8], f: &Fault, hlen: usize, chunk: usize, other: Option<&[u8]>) -> Vec<u8> {
    let mut img = image.to_vec();
    let chunks = |im: &[u8]| -> Vec<(usize, usize)> {
        refmla::chunk_ranges(im.len().saturating_sub(hlen), chunk).iter().map(|r| (hlen + r.start, hlen + r.start + r.payload + r.tag)).collect()
    };
    match f {
        Fault::Cut { n } => img.truncate(*n),
        Fault::Flip { byte, bit } => {
            if let Some(b) = img.get_mut(*byte) {
                *b ^= 1 << (bit & 7);
            }
        }
        Fault::Set { byte, val } => {
            if let Some(b) = img.get_mut(*byte) {
                *b = *val;
            }
        }
        Fault::Field { at, len, val } => {
            let bytes = val.to_le_bytes();
            for i in 0..(*len).min(8) {
                if let Some(b) = img.get_mut(at + i) {
                    *b = bytes[i];
                }
            }
        }
        Fault::DropTail { k } => {
            let n = img.len().saturating_sub(*k);
            img.truncate(n);
        }
        Fault::Garbage { k, seed } => img.extend(crate::rng::Rng::new(*seed).bytes(*k)),
        Fault::RawBytes { n, seed } => img = crate::rng::Rng::new(*seed).bytes(*n),
        Fault::Fill { at, len, val } => {
            for i in 0..*len {
                if let Some(b) = img.get_mut(at + i) {
                    *b = *val;
                }
            }
        }
        Fault::Copy { from, to, len } => {
            if from + len <= img.len() && to + len <= img.len() {
                let src: Vec<u8> = img[*from..from + len].to_vec();
                img[*to..to + len].copy_from_slice(&src);
            }
        }
        Fault::Multi { faults } => {
            for g in faults {
                img = apply_fault(&img, g, hlen, chunk, other);
            }
        }
        Fault::ChunkSwap { i, j } => {
            let c = chunks(&img);
            if *i < c.len() && *j < c.len() && i != j {
                let (a, b) = (c[*i.min(j)], c[*i.max(j)]);
                let mut out = img[..a.0].to_vec();
                out.extend_from_slice(&img[b.0..b.1]);
                out.extend_from_slice(&img[a.1..b.0]);
                out.extend_from_slice(&img[a.0..a.1]);
                out.extend_from_slice(&img[b.1..]);
                img = out;
            }
        }
        Fault::ChunkDup { i } => {
            let c = chunks(&img);
            if let Some(a) = c.get(*i) {
                let mut out = img[..a.1].to_vec();
                out.extend_from_slice(&img[a.0..a.1]);
                out.extend_from_slice(&img[a.1..]);
                img = out;
            }
        }
        Fault::ChunkDel { i } => {
            let c = chunks(&img);
            if let Some(a) = c.get(*i) {
                let mut out = img[..a.0].to_vec();
                out.extend_from_slice(&img[a.1..]);
                img = out;
            }
        }
        Fault::ChunkMove { i, j } => {
            // chunk j's bytes overwrite position i (lengths may differ: replace the range)
            let c = chunks(&img);
            if let (Some(a), Some(b)) = (c.get(*i), c.get(*j)) {
                let mut out = img[..a.0].to_vec();
                out.extend_from_slice(&img[b.0..b.1]);
                out.extend_from_slice(&img[a.1..]);
                img = out;
            }
        }
        Fault::Splice { i, j } => {
            if let Some(o) = other {
                let c = chunks(&img);
                let oc: Vec<(usize, usize)> = refmla::chunk_ranges(o.len().saturating_sub(hlen), chunk).iter().map(|r| (hlen + r.start, hlen + r.start + r.payload + r.tag)).collect();
                if let (Some(a), Some(b)) = (c.get(*i), oc.get(*j)) {
                    let mut out = img[..a.0].to_vec();
                    out.extend_from_slice(&o[b.0..b.1]);
                    out.extend_from_slice(&img[a.1..]);
                    img = out;
                }
            }
        }
    }
    img
}

pub fn fault_kind(f: &Fault) -> &'static str {
    match f {
        Fault::Cut { .. } => "cut",
        Fault::Flip { .. } => "bitflip",
        Fault::Set { .. } => "byte-set",
        Fault::Field { .. } => "field",
        Fault::ChunkSwap { .. } => "chunk-swap",
        Fault::ChunkDup { .. } => "chunk-dup",
        Fault::ChunkDel { .. } => "chunk-del",
        Fault::ChunkMove { .. } => "chunk-move",
        Fault::Splice { .. } => "chunk-splice",
        Fault::DropTail { .. } => "drop-tail",
        Fault::Garbage { .. } => "garbage-tail",
        Fault::RawBytes { .. } => "raw-bytes",
        Fault::Fill { .. } => "field-fill",
        Fault::Multi { .. } => "compound",
        Fault::Copy { .. } => "transplant",
    }
}


// ------------------------------------------------------------------ archives of the independent writer

/// An archive holding the model's files, produced by the format model's own writer with the choices the description
/// leaves open drawn from `seed`: how pieces are split into blocks and interleaved, file ids (0.., or large and
/// non-sequential, or decreasing), an index that lists every block or only the first of each run, empty content blocks,
/// a trailing empty compressed block on aligned streams. Encrypted for the recipients of `cfg`.
pub fn foreign_image(cfg: &ArcCfg, model: &Model, chunk: usize, block: usize, seed: u64) -> Vec<u8> {
    let files: Vec<(String, Vec<u8>)> = model.order.iter().map(|n| (n.clone(), model.files[n].clone())).collect();
    let mut prng = crate::rng::Rng::new(seed);
    let mut plan = Vec::new();
    for _ in 0..prng.range(0, 12) {
        if !files.is_empty() {
            plan.push((prng.usize_below(files.len()), prng.range(1, 3 * chunk as u64) as usize));
        }
    }
    let ids: Vec<u64> = match prng.below(4) {
        0 => (0..files.len() as u64).collect(),
        1 => (1..=files.len() as u64).collect(),
        2 => (0..files.len() as u64).map(|i| (1u64 << 32) + 7 + i * 0x1_0000_0001).collect(),
        _ => (0..files.len() as u64).map(|i| u64::MAX - i * 3).collect(),
    };
    let every_block = prng.chance(1, 3);
    let empty_blocks = prng.chance(1, 4);
    let close_full = prng.chance(1, 2);
    crate::seams::fired("archive_of_the_independent_writer");
    let stream = refmla::well_formed_stream_full(&files, &plan, &ids, every_block, empty_blocks);
    let mut r2 = crate::rng::Rng::new(seed ^ 0x5555_1234);
    let mut key = [0u8; 32];
    r2.fill(&mut key);
    let mut nonce = [0u8; 8];
    r2.fill(&mut nonce);
    let mut eph = [0u8; 32];
    r2.fill(&mut eph);
    let spec = refmla::EncSpec { key, nonce, eph_priv: eph, recipients: (0..cfg.recipients).map(|i| refmla::pub_of(&crate::model::key_bytes(cfg.key_seed, i))).collect() };
    refmla::wrap_opts(&stream, cfg.layers & 3, cfg.level, Some(&spec), refmla::Params { chunk, block }, close_full)
}
