//! C13 Results do not depend on how the byte sink and source split transfers.
use super::common::*;
use crate::model::*;
use crate::rng::Rng;
use crate::runner::{Case, Ctx, Prop, Tier, Violation};
use crate::seams::{Sched, SimSink};
use crate::sut::{consts_of, sut, ReadCfg};
use std::rc::Rc;

pub struct C13;

fn sched_from(case: &Case, key: &str) -> Sched {
    // schedules other than the writer sink's are stored as (kind, seed, max) params
    let kind = case.param(&format!("{key}_kind"), 0);
    let seed = case.param(&format!("{key}_seed"), 1) as u64;
    let max = case.param(&format!("{key}_max"), 1) as u64;
    match kind {
        0 => Sched::Full,
        1 => Sched::One,
        2 => Sched::Rand { seed, max: max.max(1) },
        _ => Sched::Intr { seed, max: max.max(1), intr_den: 3 },
    }
}

fn put_sched(case: &mut Case, key: &str, s: &Sched) {
    let (k, seed, max) = match s {
        Sched::Full | Sched::List { .. } => (0, 0, 0),
        Sched::One => (1, 0, 0),
        Sched::Rand { seed, max } => (2, *seed, *max),
        Sched::Intr { seed, max, .. } => (3, *seed, *max),
    };
    case.params.insert(format!("{key}_kind"), k);
    case.params.insert(format!("{key}_seed"), (seed >> 1) as i64);
    case.params.insert(format!("{key}_max"), max as i64);
}

impl Prop for C13 {
    fn id(&self) -> &'static str {
        "C13"
    }
    fn level(&self) -> &'static str {
        "exploration"
    }
    fn rule(&self) -> String {
        "run = seeded valid writer history (now and then 65..200 files or 17..300 recipients: an index / a header larger than any internal buffer) executed twice: once with every transfer complete (the memory run, which is the model) and once under a seeded transfer schedule at every seam: writer sink accepting 1 byte / 1..n bytes per call with bursts of Interrupted errors, per-append piece sources returning 1 / 1..n bytes (optionally holding more than announced), reader and repair source returning 1 / 1..n bytes per read, repair output sink splitting and interrupting. Oracle: all writer calls succeed; with sink-only schedules on the hook variants the stored image is byte-identical to the memory run; the archive reads back to the abstract model under the reader schedule, with caller buffers of 1, 13, 4096, 65536 or 1 MiB bytes; repair (both modes) of the intact image and of one seeded cut gives the same status, unfinished set and per-file bytes as the memory run. On s0 one third of the runs use the all-ones schedule on every seam. distinct_nontrivial = distinct (variant, layers, sink kind, piece kinds, source kind, out-sink kind, cut region) signatures.".into()
    }
    fn assumptions(&self) -> Vec<String> {
        vec![
            "Interrupted is injected on sinks only (the property's wording); sources return >= 1 byte until their end".into(),
            "images are compared only across sink schedules (a compressor fed in other pieces may legally emit other bytes)".into(),
        ]
    }
    fn runs(&self, tier: Tier) -> u64 {
        match tier {
            Tier::Quick => 24_000,
            Tier::Thorough => 400_000,
        }
    }
    fn make(&self, seed: u64, run: u64, tier: Tier) -> Case {
        let mut rng = Rng::derive(seed, "C13", run, "gen");
        let variant = pick_variant(&mut rng, tier);
        let vc = consts_of(variant);
        let mut c = vc.model_consts();
        let big = vc.chunk > 1000;
        // production constants: seven runs in eight stay around chunk edges (a few hundred KiB), the eighth has pieces of
        // up to several MiB (single appends larger than any copy buffer, under splitting sources)
        if big && rng.chance(7, 8) {
            c.block = 2 * c.chunk;
            c.repair_cache = 4 * c.chunk;
        }
        let cfg = gen_cfg(&mut rng, variant, vc.hooks);
        let all_ones = variant == "s0" && rng.chance(1, 3);
        let o = GenOpts { max_files: 4, max_ops: if big { 8 } else { 20 }, max_piece: 2 * c.block, max_total: if big { c.block + c.chunk } else { 6 * c.block }, interleave: rng.chance(1, 2), flushes: rng.chance(1, 4), special_names: false, finalize: true, piece_scheds: !all_ones && rng.chance(1, 2) };
        let mut ops = gen_ops(&mut rng, &c, &o);
        if all_ones {
            for op in &mut ops {
                if let WOp::Append { src, .. } | WOp::Add { src, .. } = op {
                    src.sched = Sched::One;
                }
            }
        }
        // now and then an index or a header larger than any internal buffer: 65..200 files with long-lived ones,
        // 17..300 recipients (read back under short reads)
        let mut cfg = cfg;
        if !big && !all_ones && rng.chance(1, 30) {
            let n = *rng.pick(&[65usize, 129, 200]);
            let ll = rng.range(1, 2) as usize;
            ops = gen_many_files(&mut rng, n, ll, 20);
        }
        if !all_ones && cfg.enc() && rng.chance(1, 30) {
            cfg.recipients = *rng.pick(&[17usize, 85, 128, 300]);
            cfg.reader = rng.usize_below(cfg.recipients);
        }
        let mut case = Case::new("C13", cfg, ops);
        // big images: never 1 byte per call on megabytes (cost), but small maxima on some
        let mk = |rng: &mut Rng, intr: bool| -> Sched {
            if all_ones {
                return Sched::One;
            }
            let s = Sched::make(rng, intr);
            if big {
                match s {
                    Sched::One => Sched::Rand { seed: rng.u64(), max: 5000 },
                    Sched::Rand { seed, max } => Sched::Rand { seed, max: max.max(3000) },
                    Sched::Intr { seed, max, intr_den } => Sched::Intr { seed, max: max.max(3000), intr_den },
                    o => o,
                }
            } else {
                s
            }
        };
        case.sink = mk(&mut rng, true);
        let src = mk(&mut rng, false);
        let out = mk(&mut rng, true);
        put_sched(&mut case, "src", &src);
        put_sched(&mut case, "out", &out);
        case.params.insert("cut_pm".into(), rng.range(0, 1000) as i64);
        case
    }
    fn exec(&self, case: &Case, ctx: &mut Ctx) -> Vec<Violation> {
        let mut v = Vec::new();
        let s = sut(&case.cfg.variant);
        let vc = s.consts();
        // the memory run: same ops, every transfer complete
        let mut ref_ops = case.ops.clone();
        let mut piece_kinds: Vec<&'static str> = Vec::new();
        for op in &mut ref_ops {
            if let WOp::Append { src, .. } | WOp::Add { src, .. } = op {
                piece_kinds.push(src.sched.kind());
                src.sched = Sched::Full;
            }
        }
        piece_kinds.sort();
        piece_kinds.dedup();
        let pieces_split = piece_kinds.iter().any(|k| *k != "full");
        let ref_sink = SimSink::new(&Sched::Full);
        let wr = s.write(&case.cfg, &ref_ops, ref_sink.clone());
        if wr.panic.is_some() || wr.from_config_err.is_some() || wr.results.iter().any(Result::is_err) {
            v.push(Violation::new("workload-write-failed", "write", format!("memory run failed: panic {:?}, from_config {:?}, first failed call {:?}", wr.panic, wr.from_config_err, wr.results.iter().find(|r| r.is_err()))));
            return v;
        }
        let image_ref = Rc::new(ref_sink.data());
        let model = model_of(&case.ops);
        // the scheduled run
        let sink = SimSink::new(&case.sink);
        let w = s.write(&case.cfg, &case.ops, sink.clone());
        ctx.eval();
        if let Some(p) = &w.panic {
            v.push(Violation::new("sched-write-panic", format!("sink={}", case.sink.kind()), format!("writer panicked under schedule: {p}")));
            return v;
        }
        if let Some(e) = &w.from_config_err {
            v.push(Violation::new("sched-write-failed", format!("sink={}|from_config", case.sink.kind()), format!("from_config failed under sink schedule {}: {e}", case.sink.kind())));
            return v;
        }
        for (i, r) in w.results.iter().enumerate() {
            if let Err(e) = r {
                v.push(Violation::new("sched-write-failed", format!("sink={}|pieces={}", case.sink.kind(), piece_kinds.join("+")), format!("op #{i} {} failed under sink schedule {} / piece schedules {:?}: {e}", case.ops[i].short(), case.sink.kind(), piece_kinds)));
                return v;
            }
        }
        let image_s = Rc::new(sink.data());
        let rcfg_full = ReadCfg::for_cfg(&case.cfg);
        if vc.hooks && !pieces_split {
            ctx.eval();
            if *image_s != *image_ref {
                v.push(Violation::new("sched-image-differs", format!("sink={}", case.sink.kind()), format!("stored bytes differ from the memory run: {} vs {} bytes, first difference at {}", image_s.len(), image_ref.len(), first_diff(&image_s, &image_ref))));
            }
        }
        // the caller's read buffer varies as well (1 byte .. 1 MiB: larger than every internal buffer)
        let rb = [1usize, 13, 4096, 4096, 1 << 16, 1 << 20][(case.cfg.key_seed % 6) as usize];
        v.extend(check_readback(s, &image_s, &rcfg_full, &model, rb, ctx, "sched-w"));
        // reading under a source schedule
        let src_sched = sched_from(case, "src");
        let out_sched = sched_from(case, "out");
        let mut rcfg = rcfg_full.clone();
        rcfg.sched = src_sched.clone();
        v.extend(check_readback(s, &image_ref, &rcfg, &model, rb, ctx, "sched-r"));
        // repair: intact and one cut, both modes, vs the memory run
        let ocfg = ArcCfg { variant: case.cfg.variant.clone(), layers: 0, level: 0, recipients: 0, reader: 0, rng_seed: 0, key_seed: 0 };
        let plain = ReadCfg { keys: vec![], sched: Sched::Full, budget: u64::MAX / 2, error_at_read: None, spill_path: None, explicit_auth_mode: false, replay: None };
        let len = image_ref.len();
        let cut = (len as u64 * case.param("cut_pm", 500) as u64 / 1000) as usize;
        let lay = layout_of(&image_ref, &case.cfg, vc.chunk as usize, vc.block as usize).ok();
        let modes: &[bool] = if case.cfg.enc() { &[true, false] } else { &[true] };
        for n in [len, cut] {
            let img = Rc::new(image_ref[..n].to_vec());
            for &auth in modes {
                let a = s.repair(img.clone(), &rcfg_full, auth, &ocfg, &Sched::Full);
                let b = s.repair(img.clone(), &rcfg, auth, &ocfg, &out_sched);
                ctx.eval();
                let cls = format!("src={}|out={}|{}", src_sched.kind(), out_sched.kind(), if case.cfg.comp() { "comp" } else { "nocomp" });
                if a.panic.is_some() {
                    // C02's business; nothing to compare against
                    continue;
                }
                if let Some(p) = &b.panic {
                    v.push(Violation::new("sched-repair-panic", cls.clone(), format!("repair of {n}/{len} bytes panicked under schedule: {p}")));
                    continue;
                }
                let sa = a.convert.as_ref().and_then(|c| c.as_ref().ok());
                let sb = b.convert.as_ref().and_then(|c| c.as_ref().ok());
                match (sa, sb) {
                    (Some(sa), Some(sb)) => {
                        let fa = read_all(s, &Rc::new(a.out_image.clone()), &plain);
                        let fb = read_all(s, &Rc::new(b.out_image.clone()), &plain);
                        if sa.stop != sb.stop || sa.unfinished != sb.unfinished || fa != fb {
                            let desc = |f: &Result<std::collections::BTreeMap<String, Vec<u8>>, String>| match f {
                                Ok(m) => format!("{:?}", m.iter().map(|(k, b)| (k.chars().take(10).collect::<String>(), b.len())).collect::<Vec<_>>()),
                                Err(e) => format!("unreadable: {e}"),
                            };
                            v.push(Violation::new("sched-repair-differs", cls.clone(), format!("repair of {n}/{len} bytes, auth={auth}: memory run -> {} {:?} {}; scheduled run -> {} {:?} {}", sa.stop, sa.unfinished, desc(&fa), sb.stop, sb.unfinished, desc(&fb))));
                        }
                    }
                    (None, None) => {}
                    (x, y) => {
                        if n >= header_len(&case.cfg) || x.is_some() != y.is_some() {
                            v.push(Violation::new("sched-repair-differs", cls.clone(), format!("repair of {n}/{len} bytes, auth={auth}: memory run ok={} scheduled run ok={} ({:?} / {:?})", x.is_some(), y.is_some(), a.init.as_ref().err().or(a.convert.as_ref().and_then(|c| c.as_ref().err())), b.init.as_ref().err().or(b.convert.as_ref().and_then(|c| c.as_ref().err())))));
                        }
                    }
                }
            }
        }
        let region = lay.as_ref().map(|l| l.class_at(cut, len)).unwrap_or("?");
        ctx.sig(format!("{}|{}|w{}|p{}|r{}|o{}|{}", case.cfg.variant, case.cfg.layer_name(), case.sink.kind(), piece_kinds.join("+"), src_sched.kind(), out_sched.kind(), region));
        v
    }
}
