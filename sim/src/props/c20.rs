//! C20 The C interface produces and extracts the same archives as the Rust interface.
//! The bindings' `extern "C"` entry points are linked as an rlib (same source file,
//! shadow package) and driven from Rust with simulated callbacks.
use super::common::*;
use crate::model::*;
use crate::rng::Rng;
use crate::runner::{Case, Ctx, Prop, Tier, Violation};
use crate::seams::{self, Sched, SchedState, SimSink, Xfer};
use crate::sut::{guard, sut, ReadCfg};
use mla_cbind as c;
use std::collections::BTreeMap;
use std::ffi::{c_void, CString};
use std::os::raw::c_char;
use std::ptr::null_mut;
use std::rc::Rc;

pub struct C20;

const PRIV_KEY_PREFIX: &[u8] = b"\x30\x2e\x02\x01\x00\x30\x05\x06\x03\x2b\x65\x6e\x04\x22\x04\x20";
const PUB_KEY_PREFIX: &[u8] = b"\x30\x2a\x30\x05\x06\x03\x2b\x65\x6e\x03\x21\x00";

pub fn keypair_pub(key_seed: u64, idx: usize) -> curve25519_parser::KeyPair {
    keypair(key_seed, idx)
}

fn keypair(key_seed: u64, idx: usize) -> curve25519_parser::KeyPair {
    let k = key_bytes(key_seed, idx);
    let mut private_der = [0u8; 48];
    private_der[..16].copy_from_slice(PRIV_KEY_PREFIX);
    private_der[16..].copy_from_slice(&k);
    let mut public_der = [0u8; 44];
    public_der[..12].copy_from_slice(PUB_KEY_PREFIX);
    public_der[12..].copy_from_slice(&crate::refmla::pub_of(&k));
    curve25519_parser::KeyPair { public_der, private_der }
}

/// simulated sink behind the C write/flush callbacks
struct CbSink {
    data: Vec<u8>,
    sched: SchedState,
    calls: u64,
    fail_at: Option<u64>,
    /// how a failing call looks: 0 = error code, count untouched; 1 = part of the buffer stored AND reported, then the
    /// error code (what the project's own C samples do on ferror); 2 = whole length reported, nothing stored, error code
    fail_style: u8,
    /// the failure happens once (call == k) instead of from call k on
    fail_once: bool,
    failures: u64,
    flushes: u64,
    flush_fails: bool,
}

impl CbSink {
    fn new(s: &Sched, fail_at: Option<u64>) -> Box<CbSink> {
        Box::new(CbSink { data: Vec::new(), sched: SchedState::new(s), calls: 0, fail_at, fail_style: 0, fail_once: false, failures: 0, flushes: 0, flush_fails: false })
    }
}

extern "C" fn write_cb(buffer: *const u8, len: u32, ctx: *mut c_void, written: *mut u32) -> i32 {
    let s = unsafe { &mut *(ctx.cast::<CbSink>()) };
    let call = s.calls;
    s.calls += 1;
    if s.fail_at.is_some_and(|k| if s.fail_once { call == k } else { call >= k }) {
        seams::fired("c_write_callback_failure");
        s.failures += 1;
        match s.fail_style {
            1 if len > 0 => {
                seams::fired("c_write_callback_failure_with_count");
                let n = (len as usize / 2).max(1);
                s.data.extend_from_slice(unsafe { std::slice::from_raw_parts(buffer, n) });
                unsafe { *written = n as u32 };
            }
            2 if len > 0 => {
                seams::fired("c_write_callback_failure_with_count");
                unsafe { *written = len };
            }
            _ => {}
        }
        return 5; // EIO
    }
    if len == 0 {
        unsafe { *written = 0 };
        return 0;
    }
    let n = match s.sched.next(len as usize) {
        Xfer::Move(n) => n.min(len as usize),
        Xfer::Interrupted => 1,
    };
    if n < len as usize {
        seams::fired("c_write_callback_partial");
    }
    let buf = unsafe { std::slice::from_raw_parts(buffer, n) };
    s.data.extend_from_slice(buf);
    unsafe { *written = n as u32 };
    0
}

extern "C" fn flush_cb(ctx: *mut c_void) -> i32 {
    let s = unsafe { &mut *(ctx.cast::<CbSink>()) };
    s.flushes += 1;
    if s.flush_fails {
        seams::fired("c_flush_callback_failure");
        return 5;
    }
    0
}

/// simulated source + per-file sinks behind the read/seek/file callbacks
struct CbSource {
    image: Vec<u8>,
    pos: u64,
    sched: SchedState,
    reads: u64,
    fail_read_at: Option<u64>,
    files: BTreeMap<String, Box<CbSink>>,
    decline: Vec<String>,
    file_sink_sched: Sched,
    file_sink_fail: Option<u64>,
    file_fail_style: u8,
    file_fail_once: bool,
    file_cb_calls: u64,
}

extern "C" fn read_cb(buffer: *mut u8, len: u32, ctx: *mut c_void, nread: *mut u32) -> i32 {
    let s = unsafe { &mut *(ctx.cast::<CbSource>()) };
    let call = s.reads;
    s.reads += 1;
    if s.fail_read_at == Some(call) {
        seams::fired("c_read_callback_failure");
        return 5;
    }
    let avail = (s.image.len() as u64).saturating_sub(s.pos) as usize;
    let want = (len as usize).min(avail);
    if want == 0 {
        unsafe { *nread = 0 };
        return 0;
    }
    let n = match s.sched.next(want) {
        Xfer::Move(n) => n.min(want),
        Xfer::Interrupted => 1,
    };
    unsafe {
        std::ptr::copy_nonoverlapping(s.image.as_ptr().add(s.pos as usize), buffer, n);
        *nread = n as u32;
    }
    s.pos += n as u64;
    0
}

extern "C" fn seek_cb(offset: i64, whence: i32, ctx: *mut c_void, new_pos: *mut u64) -> i32 {
    let s = unsafe { &mut *(ctx.cast::<CbSource>()) };
    let base: i128 = match whence {
        0 => 0,
        1 => i128::from(s.pos),
        _ => s.image.len() as i128,
    };
    let t = base + i128::from(offset);
    if t < 0 || t > i128::from(u64::MAX) {
        return 22; // EINVAL
    }
    s.pos = t as u64;
    unsafe { *new_pos = s.pos };
    0
}

/// mirror of the bindings' `FileWriter` (fields are private there; layout is repr(C), as in mla.h)
#[repr(C)]
struct FileWriterMirror {
    write_callback: Option<extern "C" fn(*const u8, u32, *mut c_void, *mut u32) -> i32>,
    flush_callback: Option<extern "C" fn(*mut c_void) -> i32>,
    context: *mut c_void,
}

extern "C" fn file_cb(ctx: *mut c_void, name: *const u8, name_len: usize, fw: *mut c::FileWriter) -> i32 {
    let s = unsafe { &mut *(ctx.cast::<CbSource>()) };
    s.file_cb_calls += 1;
    let n = String::from_utf8_lossy(unsafe { std::slice::from_raw_parts(name, name_len) }).to_string();
    if s.decline.contains(&n) {
        seams::fired("c_file_callback_declines");
        return 1;
    }
    let first = s.files.is_empty();
    let mut sink = CbSink::new(&s.file_sink_sched, if first { s.file_sink_fail } else { None });
    sink.fail_style = s.file_fail_style;
    sink.fail_once = s.file_fail_once;
    let e = s.files.entry(n).or_insert(sink);
    let p: *mut CbSink = &mut **e;
    unsafe {
        fw.cast::<FileWriterMirror>().write(FileWriterMirror { write_callback: Some(write_cb), flush_callback: Some(flush_cb), context: p.cast() });
    }
    0
}

fn st(s: c::MLAStatus) -> u64 {
    s as u64
}

const OK: u64 = 0;

struct CWrite {
    statuses: Vec<u64>,
    image: Vec<u8>,
    new_status: u64,
    close_status: Option<u64>,
    cb_failures: u64,
}

/// Express a writer history through the C entry points
fn c_write(case: &Case, sink_sched: &Sched, fail_at: Option<u64>) -> CWrite {
    c_write_opts(case, sink_sched, fail_at, false)
}

fn c_write_opts(case: &Case, sink_sched: &Sched, fail_at: Option<u64>, flush_fails: bool) -> CWrite {
    c_write_styled(case, sink_sched, fail_at, flush_fails, 0, false)
}

fn c_write_styled(case: &Case, sink_sched: &Sched, fail_at: Option<u64>, flush_fails: bool, fail_style: u8, fail_once: bool) -> CWrite {
    let mut out = CWrite { statuses: Vec::new(), image: Vec::new(), new_status: OK, close_status: None, cb_failures: 0 };
    let mut sink = CbSink::new(sink_sched, fail_at);
    sink.flush_fails = flush_fails;
    sink.fail_style = fail_style;
    sink.fail_once = fail_once;
    let ctx: *mut c_void = (&mut *sink as *mut CbSink).cast();
    let mut cfg: c::MLAConfigHandle = null_mut();
    assert_eq!(st(c::mla_config_default_new(&mut cfg)), OK);
    // the recipients' keys: all in one string and one call, or one call per key (each call ADDS to the list)
    let split_keys = case.param("split_keys", 0) == 1;
    let mut pems = String::new();
    for i in 0..case.cfg.recipients.max(1) {
        pems.push_str(&keypair(case.cfg.key_seed, i).public_as_pem());
        pems.push('\n');
        if split_keys || i + 1 == case.cfg.recipients.max(1) {
            let pem_c = CString::new(std::mem::take(&mut pems)).unwrap();
            let s = st(c::mla_config_add_public_keys(cfg, pem_c.as_ptr()));
            if s != OK {
                out.new_status = s;
                return out;
            }
        }
    }
    let _ = c::mla_config_set_compression_level(cfg, case.cfg.level);
    let mut archive: c::MLAArchiveHandle = null_mut();
    out.new_status = st(c::mla_archive_new(&mut cfg, Some(write_cb), Some(flush_cb), ctx, &mut archive));
    if out.new_status != OK {
        out.cb_failures = sink.failures;
        out.image = std::mem::take(&mut sink.data);
        return out;
    }
    let mut handles: BTreeMap<usize, c::MLAArchiveFileHandle> = BTreeMap::new();
    for op in &case.ops {
        let s = match op {
            WOp::Start { f, name } => {
                let n = CString::new(name.string()).unwrap_or_default();
                let mut h: c::MLAArchiveFileHandle = null_mut();
                let s = st(c::mla_archive_file_new(archive, n.as_ptr(), &mut h));
                if s == OK {
                    handles.insert(*f, h);
                }
                s
            }
            WOp::Append { f, data, .. } => {
                let b = data.bytes();
                match handles.get(f) {
                    Some(h) => st(c::mla_archive_file_append(archive, *h, b.as_ptr(), b.len() as u64)),
                    None => u64::MAX,
                }
            }
            WOp::End { f } => match handles.get_mut(f) {
                Some(h) => st(c::mla_archive_file_close(archive, h)),
                None => u64::MAX,
            },
            WOp::Add { name, data, .. } => {
                let n = CString::new(name.string()).unwrap_or_default();
                let mut h: c::MLAArchiveFileHandle = null_mut();
                let mut s = st(c::mla_archive_file_new(archive, n.as_ptr(), &mut h));
                if s == OK {
                    let b = data.bytes();
                    s = st(c::mla_archive_file_append(archive, h, b.as_ptr(), b.len() as u64));
                    let s2 = st(c::mla_archive_file_close(archive, &mut h));
                    if s == OK {
                        s = s2;
                    }
                }
                s
            }
            WOp::Flush => st(c::mla_archive_flush(archive)),
            WOp::Finalize => {
                let s = st(c::mla_archive_close(&mut archive));
                out.close_status = Some(s);
                s
            }
            _ => OK,
        };
        out.statuses.push(s);
        if archive.is_null() {
            break;
        }
    }
    if !archive.is_null() {
        // release the writer even when the history did not finalize (failed callbacks)
        let s = st(c::mla_archive_close(&mut archive));
        out.close_status = Some(s);
    }
    out.cb_failures = sink.failures;
    out.image = std::mem::take(&mut sink.data);
    out
}

struct CExtract {
    status: u64,
    got: BTreeMap<String, Vec<u8>>,
    file_cb_calls: u64,
    sink_failures: u64,
}

fn c_extract(case: &Case, image: &[u8], src_sched: &Sched, file_sched: &Sched, fail_read: Option<u64>, file_fail: Option<u64>, decline: Vec<String>, with_key: bool) -> CExtract {
    let mut src = Box::new(CbSource { image: image.to_vec(), pos: 0, sched: SchedState::new(src_sched), reads: 0, fail_read_at: fail_read, files: BTreeMap::new(), decline, file_sink_sched: file_sched.clone(), file_sink_fail: file_fail, file_fail_style: (case.param("fail_style", 0) as u8), file_fail_once: case.param("fail_once", 0) == 1, file_cb_calls: 0 });
    let ctx: *mut c_void = (&mut *src as *mut CbSource).cast();
    let mut cfg: c::MLAConfigHandle = null_mut();
    assert_eq!(st(c::mla_reader_config_new(&mut cfg)), OK);
    if with_key {
        // now and then two keys that belong to no recipient are added first (each call ADDS a candidate)
        for d in 0..case.param("decoy_privs", 0) {
            let pem = CString::new(keypair(case.cfg.key_seed ^ 0xDEC0, 40 + d as usize).private_as_pem()).unwrap();
            assert_eq!(st(c::mla_reader_config_add_private_key(cfg, pem.as_ptr())), OK);
        }
        let pem = CString::new(keypair(case.cfg.key_seed, case.cfg.reader).private_as_pem()).unwrap();
        assert_eq!(st(c::mla_reader_config_add_private_key(cfg, pem.as_ptr())), OK);
    }
    let status = st(c::mla_roarchive_extract(&mut cfg, Some(read_cb), Some(seek_cb), Some(file_cb), ctx));
    let got = src.files.iter().map(|(k, v)| (k.clone(), v.data.clone())).collect();
    let sink_failures = src.files.values().map(|f| f.failures).sum();
    CExtract { status, got, file_cb_calls: src.file_cb_calls, sink_failures }
}

/// one null / cleared-handle call; returns (description, status)
fn null_case(k: i64, case: &Case) -> (String, u64) {
    let pem_pub = CString::new(keypair(case.cfg.key_seed, 0).public_as_pem()).unwrap();
    let pem_priv = CString::new(keypair(case.cfg.key_seed, 0).private_as_pem()).unwrap();
    let name = CString::new("n").unwrap();
    let mut sink = CbSink::new(&Sched::Full, None);
    let ctx: *mut c_void = (&mut *sink as *mut CbSink).cast();
    let mk_cfg = || -> c::MLAConfigHandle {
        let mut cfg: c::MLAConfigHandle = null_mut();
        let _ = c::mla_config_default_new(&mut cfg);
        let _ = c::mla_config_add_public_keys(cfg, pem_pub.as_ptr());
        cfg
    };
    let mk_archive = |ctx: *mut c_void| -> c::MLAArchiveHandle {
        let mut cfg = mk_cfg();
        let mut a: c::MLAArchiveHandle = null_mut();
        let _ = c::mla_archive_new(&mut cfg, Some(write_cb), Some(flush_cb), ctx, &mut a);
        a
    };
    let buf = [1u8, 2, 3];
    match k {
        0 => ("mla_config_default_new(NULL)".into(), st(c::mla_config_default_new(null_mut()))),
        1 => ("mla_config_add_public_keys(NULL, keys)".into(), st(c::mla_config_add_public_keys(null_mut(), pem_pub.as_ptr()))),
        2 => ("mla_config_add_public_keys(cfg, NULL)".into(), st(c::mla_config_add_public_keys(mk_cfg(), std::ptr::null::<c_char>()))),
        3 => ("mla_config_set_compression_level(NULL, 5)".into(), st(c::mla_config_set_compression_level(null_mut(), 5))),
        4 => ("mla_config_set_compression_level(cfg, 12)".into(), st(c::mla_config_set_compression_level(mk_cfg(), 12))),
        5 => ("mla_reader_config_new(NULL)".into(), st(c::mla_reader_config_new(null_mut()))),
        6 => ("mla_reader_config_add_private_key(NULL, key)".into(), st(c::mla_reader_config_add_private_key(null_mut(), pem_priv.as_ptr()))),
        7 => {
            let mut cfg: c::MLAConfigHandle = null_mut();
            let _ = c::mla_reader_config_new(&mut cfg);
            ("mla_reader_config_add_private_key(cfg, NULL)".into(), st(c::mla_reader_config_add_private_key(cfg, std::ptr::null::<c_char>())))
        }
        8 => {
            let mut a: c::MLAArchiveHandle = null_mut();
            ("mla_archive_new(NULL config pointer, ..)".into(), st(c::mla_archive_new(null_mut(), Some(write_cb), Some(flush_cb), ctx, &mut a)))
        }
        9 => {
            // a handle the interface cleared on release: the config is consumed by the first mla_archive_new
            let mut cfg = mk_cfg();
            let mut a: c::MLAArchiveHandle = null_mut();
            let _ = c::mla_archive_new(&mut cfg, Some(write_cb), Some(flush_cb), ctx, &mut a);
            let mut b: c::MLAArchiveHandle = null_mut();
            let s = st(c::mla_archive_new(&mut cfg, Some(write_cb), Some(flush_cb), ctx, &mut b));
            let _ = c::mla_archive_close(&mut a);
            ("mla_archive_new(&config) with the config handle the first mla_archive_new cleared".into(), s)
        }
        10 => {
            let mut cfg = mk_cfg();
            ("mla_archive_new(&config, .., handle_out = NULL)".into(), st(c::mla_archive_new(&mut cfg, Some(write_cb), Some(flush_cb), ctx, null_mut())))
        }
        11 => {
            let mut cfg = mk_cfg();
            let mut a: c::MLAArchiveHandle = null_mut();
            ("mla_archive_new(&config, write_callback = NULL, ..)".into(), st(c::mla_archive_new(&mut cfg, None, Some(flush_cb), ctx, &mut a)))
        }
        12 => {
            let mut h: c::MLAArchiveFileHandle = null_mut();
            ("mla_archive_file_new(NULL, name, &h)".into(), st(c::mla_archive_file_new(null_mut(), name.as_ptr(), &mut h)))
        }
        13 => {
            let mut a = mk_archive(ctx);
            let mut h: c::MLAArchiveFileHandle = null_mut();
            let s = st(c::mla_archive_file_new(a, std::ptr::null::<c_char>(), &mut h));
            let _ = c::mla_archive_close(&mut a);
            ("mla_archive_file_new(archive, NULL, &h)".into(), s)
        }
        14 => {
            let mut a = mk_archive(ctx);
            let s = st(c::mla_archive_file_new(a, name.as_ptr(), null_mut()));
            let _ = c::mla_archive_close(&mut a);
            ("mla_archive_file_new(archive, name, NULL)".into(), s)
        }
        15 => {
            let mut a = mk_archive(ctx);
            let mut h: c::MLAArchiveFileHandle = null_mut();
            let _ = c::mla_archive_file_new(a, name.as_ptr(), &mut h);
            let s1 = st(c::mla_archive_file_append(null_mut(), h, buf.as_ptr(), 3));
            let s2 = st(c::mla_archive_file_append(a, null_mut(), buf.as_ptr(), 3));
            let s3 = st(c::mla_archive_file_append(a, h, std::ptr::null(), 3));
            let _ = c::mla_archive_file_close(a, &mut h);
            let _ = c::mla_archive_close(&mut a);
            ("mla_archive_file_append with NULL archive / NULL file / NULL buffer".into(), if s1 != OK && s2 != OK && s3 != OK { s1 } else { OK })
        }
        16 => ("mla_archive_flush(NULL)".into(), st(c::mla_archive_flush(null_mut()))),
        17 => {
            let mut a = mk_archive(ctx);
            let mut h: c::MLAArchiveFileHandle = null_mut();
            let _ = c::mla_archive_file_new(a, name.as_ptr(), &mut h);
            let s0 = st(c::mla_archive_file_close(a, &mut h));
            // h was cleared by the interface: closing / appending again must be refused
            let s1 = st(c::mla_archive_file_close(a, &mut h));
            let s2 = st(c::mla_archive_file_append(a, h, buf.as_ptr(), 3));
            let s3 = st(c::mla_archive_file_close(a, null_mut()));
            let s4 = st(c::mla_archive_file_close(null_mut(), &mut h));
            let _ = c::mla_archive_close(&mut a);
            ("file handle cleared by mla_archive_file_close used again (close, append), NULL pointers".into(), if s0 == OK && s1 != OK && s2 != OK && s3 != OK && s4 != OK { s1 } else { OK })
        }
        18 => {
            let mut a = mk_archive(ctx);
            let s0 = st(c::mla_archive_close(&mut a));
            let s1 = st(c::mla_archive_close(&mut a));
            let s2 = st(c::mla_archive_close(null_mut()));
            let s3 = st(c::mla_archive_flush(a));
            ("archive handle cleared by mla_archive_close used again (close, flush), NULL pointer".into(), if s0 == OK && s1 != OK && s2 != OK && s3 != OK { s1 } else { OK })
        }
        19 => ("mla_roarchive_extract(NULL config pointer, ..)".into(), st(c::mla_roarchive_extract(null_mut(), Some(read_cb), Some(seek_cb), Some(file_cb), null_mut()))),
        20 => {
            // reader config handle cleared by a first extraction
            let mut src = Box::new(CbSource { image: vec![], pos: 0, sched: SchedState::new(&Sched::Full), reads: 0, fail_read_at: None, files: BTreeMap::new(), decline: vec![], file_sink_sched: Sched::Full, file_sink_fail: None, file_fail_style: 0, file_fail_once: false, file_cb_calls: 0 });
            let sctx: *mut c_void = (&mut *src as *mut CbSource).cast();
            let mut cfg: c::MLAConfigHandle = null_mut();
            let _ = c::mla_reader_config_new(&mut cfg);
            let _ = c::mla_roarchive_extract(&mut cfg, Some(read_cb), Some(seek_cb), Some(file_cb), sctx);
            ("mla_roarchive_extract(&config) with the config handle a first extraction cleared".into(), st(c::mla_roarchive_extract(&mut cfg, Some(read_cb), Some(seek_cb), Some(file_cb), sctx)))
        }
        21 => {
            let mut cfg: c::MLAConfigHandle = null_mut();
            let _ = c::mla_reader_config_new(&mut cfg);
            ("mla_roarchive_extract(&config, read_callback = NULL, ..)".into(), st(c::mla_roarchive_extract(&mut cfg, None, Some(seek_cb), Some(file_cb), null_mut())))
        }
        22 => ("mla_roarchive_info(read_cb, ctx, NULL)".into(), st(c::mla_roarchive_info(Some(read_cb), null_mut(), null_mut()))),
        _ => {
            let mut cfg: c::MLAConfigHandle = null_mut();
            ("mla_archive_new(&NULL handle, ..) (never initialised)".into(), {
                let mut a: c::MLAArchiveHandle = null_mut();
                st(c::mla_archive_new(&mut cfg, Some(write_cb), Some(flush_cb), ctx, &mut a))
            })
        }
    }
}

const N_NULL: i64 = 24;

impl Prop for C20 {
    fn id(&self) -> &'static str {
        "C20"
    }
    fn level(&self) -> &'static str {
        "exploration"
    }
    fn rule(&self) -> String {
        "run kinds. create: a seeded valid writer history (as C01, names without NUL; one run in 150 with a single append of 4..10 MiB) expressed through mla_config_* / mla_archive_* with a simulated write callback that accepts 1 byte, 1..n bytes or everything per call; the bytes collected by the callback must be an archive the Rust reader (prod build) reads back to the abstract model. extract: the archive (one run in three: the same files written by the Rust library without layers, compressed only, or encrypted only) goes through mla_roarchive_extract with simulated read/seek callbacks (1 byte, 1..n per read) and a file callback handing out one simulated writer per file (splitting schedules), declining nothing, a seeded subset, every file, or every file but the last one; the recipients' public keys are given in one call or one call per key, the reader's private key now and then after two keys of non-recipients: every accepted writer holds exactly the model's bytes, declined names receive nothing. failures: write callback failing from its k-th call on or ONLY at its k-th call, in three styles - error code with the count untouched; part of the buffer stored and reported, then the error code (what the project's own C samples do on ferror); whole length reported, nothing stored, error code - (whenever the callback did return a failure code, some call of the history or the final close must return a non-success status), read callback failing at its k-th call, the first per-file writer failing at its k-th call (same styles, same exact criterion), flush callback failing, missing private key: the status must not be success. null: each of 24 calls with a NULL handle, NULL out-pointer, NULL callback or a handle the interface itself cleared on release (config after mla_archive_new / mla_roarchive_extract, file after close, archive after close, double close) must return a non-success status; the worker process must survive. distinct_nontrivial = distinct (kind, recipients, schedule kinds, failure placement, outcome) signatures.".into()
    }
    fn assumptions(&self) -> Vec<String> {
        vec![
            "the bindings are linked as an rlib from the same source file (bindings/C/src/lib.rs) against the prod build of mla; the callbacks are Rust extern \"C\" functions".into(),
            "the C interface always enables compression + encryption (mla_config_default_new); names are valid UTF-8 without NUL; callbacks accept at least one byte".into(),
        ]
    }
    fn real_components(&self) -> Vec<String> {
        vec!["bindings/C/src/lib.rs (all entry points)".into(), "mla prod build".into(), "curve25519-parser (PEM keys)".into()]
    }
    fn stubbed_components(&self) -> Vec<String> {
        vec!["C write/flush/read/seek/file callbacks".into()]
    }
    fn prod_digest_comparable(&self) -> bool {
        true
    }
    fn runs(&self, tier: Tier) -> u64 {
        match tier {
            Tier::Quick => 24 + 12_000,
            Tier::Thorough => 24 + 40_000,
        }
    }
    fn make(&self, seed: u64, run: u64, _tier: Tier) -> Case {
        let mut rng = Rng::derive(seed, "C20", run, "gen");
        let recipients = rng.range(1, 3) as usize;
        let cfg = ArcCfg { variant: "prod".into(), layers: 3, level: *rng.pick(&[0u32, 1, 3, 5, 6]), recipients, reader: rng.usize_below(recipients), rng_seed: 0, key_seed: rng.u64() };
        if (run as i64) < N_NULL {
            let mut case = Case::new("C20", cfg, vec![]);
            case.params.insert("kind".into(), 3);
            case.params.insert("nullcase".into(), run as i64);
            return case;
        }
        let c = Consts { cipher_buf: 4096, chunk: 8192, block: 16384, repair_cache: 32768, failsafe_buf: 4096 };
        let o = GenOpts { max_files: 5, max_ops: 16, max_piece: 40_000, max_total: if rng.chance(1, 10) { 400_000 } else { 60_000 }, interleave: rng.chance(2, 3), flushes: rng.chance(1, 3), special_names: false, finalize: true, piece_scheds: false };
        let mut ops = gen_ops(&mut rng, &c, &o);
        if rng.chance(1, 150) {
            // ONE call of mla_archive_file_append with more than 4 MiB (a length that no power of two divides)
            let n = (4usize << 20) + 1 + 2 * rng.usize_below(3 << 20);
            let at = ops.len().saturating_sub(1);
            ops.insert(at, WOp::Add { name: Name::lit("one big append"), data: Data::Period { n, p: 251 }, src: Src::exact() });
        }
        // names must survive CString: gen_name never emits NUL; make them unique and non-empty
        for (i, op) in ops.iter_mut().enumerate() {
            if let WOp::Start { name, .. } | WOp::Add { name, .. } = op {
                if name.string().is_empty() {
                    *name = Name::lit(&format!("e{i}"));
                }
            }
        }
        let mut case = Case::new("C20", cfg, ops);
        let kind = *rng.pick(&[0i64, 0, 0, 1, 1, 2]);
        case.params.insert("kind".into(), kind);
        case.sink = match rng.below(4) {
            0 => Sched::Full,
            1 => Sched::One,
            _ => Sched::Rand { seed: rng.u64(), max: *rng.pick(&[2u64, 7, 100, 5000, 1 << 20]) },
        };
        case.params.insert("src_max".into(), *rng.pick(&[0i64, 1, 3, 50, 4096]));
        case.params.insert("file_max".into(), *rng.pick(&[0i64, 1, 5, 1000]));
        case.params.insert("sched_seed".into(), (rng.u64() >> 1) as i64);
        // which files the file callback declines: none, a seeded subset, ALL of them, or all but the last one
        case.params.insert("decline_mask".into(), match rng.below(8) { 0..=3 => 0, 4 | 5 => rng.below(32) as i64, 6 => 0x3fff_ffff, _ => -2 });
        case.params.insert("split_keys".into(), i64::from(rng.chance(1, 3)));
        case.params.insert("lib_layers".into(), if rng.chance(1, 3) { rng.below(3) as i64 } else { -1 });
        case.params.insert("decoy_privs".into(), if rng.chance(1, 4) { 2 } else { 0 });
        case.params.insert("fail_kind".into(), rng.below(5) as i64);
        case.params.insert("fail_at".into(), rng.range(0, 30) as i64);
        case.params.insert("fail_style".into(), rng.below(3) as i64);
        case.params.insert("fail_once".into(), i64::from(rng.chance(1, 2)));
        case
    }
    fn exec(&self, case: &Case, ctx: &mut Ctx) -> Vec<Violation> {
        let mut v = Vec::new();
        let kind = case.param("kind", 0);
        if kind == 3 {
            let k = case.param("nullcase", 0);
            ctx.eval();
            match guard(|| null_case(k, case)) {
                Ok((what, status)) => {
                    if status == OK {
                        v.push(Violation::new("null-handle-accepted", format!("case{k}"), format!("{what}: returned success")));
                    }
                    ctx.sig(format!("null|{k}|{status:x}"));
                }
                Err(p) => v.push(Violation::new("c-api-panic", format!("null|case{k}"), format!("null-handle case {k} panicked: {p}"))),
            }
            return v;
        }
        let model = model_of(&case.ops);
        let seed = case.param("sched_seed", 1) as u64;
        let mk = |max: i64, s: u64| -> Sched {
            match max {
                0 => Sched::Full,
                1 => Sched::One,
                m => Sched::Rand { seed: s, max: m as u64 },
            }
        };
        let src_sched = mk(case.param("src_max", 0), seed);
        let file_sched = mk(case.param("file_max", 0), seed ^ 77);
        let s = sut("prod");
        let rcfg = ReadCfg::for_cfg(&case.cfg);
        // ---- create through the C interface (fault-free), read back with the Rust reader
        let w = match guard(|| c_write(case, &case.sink, None)) {
            Ok(w) => w,
            Err(p) => {
                v.push(Violation::new("c-api-panic", "create", format!("creation through the C interface panicked: {p}")));
                return v;
            }
        };
        ctx.eval();
        if w.new_status != OK || w.statuses.iter().any(|s| *s != OK) {
            v.push(Violation::new("c-create-failed", format!("sink={}", case.sink.kind()), format!("a valid history failed through the C interface: mla_archive_new -> {:#x}, calls {:?}", w.new_status, w.statuses.iter().map(|s| format!("{s:#x}")).collect::<Vec<_>>())));
            return v;
        }
        let image = Rc::new(w.image.clone());
        let rb = check_readback(s, &image, &rcfg, &model, 4096, ctx, "c-created");
        for mut x in rb {
            x.class = format!("{}|sink={}", x.class, case.sink.kind());
            v.push(x);
        }
        if !v.is_empty() {
            return v;
        }
        if kind == 0 {
            ctx.sig(format!("create|r{}|{}|f{}", case.cfg.recipients, case.sink.kind(), model.files.len().min(4)));
            return v;
        }
        if kind == 1 {
            // ---- extract through the C interface
            let mask = case.param("decline_mask", 0);
            // -2: every file but the last one is declined
            let decline: Vec<String> = if mask == -2 { model.order.iter().take(model.order.len().saturating_sub(1)).cloned().collect() } else { model.order.iter().enumerate().filter(|(i, _)| (mask as u64) & (1 << (i % 5)) != 0).map(|(_, n)| n.clone()).collect() };
            // the archive to extract: the one just created through the C interface (always compressed + encrypted), or -
            // one run in three - the same files written by the Rust library with another layer set (none / compress /
            // encrypt): the C reader must extract any archive, and without the encryption layer its seek callback sees
            // the reader's own seeks from the end
            let lib_layers = case.param("lib_layers", -1);
            let (ext_image, with_key): (Vec<u8>, bool) = if lib_layers >= 0 {
                let mut lcfg = case.cfg.clone();
                lcfg.layers = lib_layers as u8 & 3;
                lcfg.recipients = if lcfg.enc() { case.cfg.recipients } else { 0 };
                let lsink = SimSink::new(&Sched::Full);
                let lw = s.write(&lcfg, &case.ops, lsink.clone());
                if lw.panic.is_some() || lw.from_config_err.is_some() || lw.results.iter().any(Result::is_err) {
                    v.push(Violation::new("workload-write-failed", "write", format!("the Rust writer failed on the same history: {:?} {:?}", lw.panic, lw.results.iter().find(|r| r.is_err()))));
                    return v;
                }
                seams::fired("c_extraction_of_a_rust_written_archive");
                (lsink.data(), lcfg.enc())
            } else {
                (w.image.clone(), true)
            };
            let ex = match guard(|| c_extract(case, &ext_image, &src_sched, &file_sched, None, None, decline.clone(), with_key)) {
                Ok(e) => e,
                Err(p) => {
                    v.push(Violation::new("c-api-panic", "extract", format!("extraction through the C interface panicked: {p}")));
                    return v;
                }
            };
            ctx.eval();
            if ex.status != OK {
                v.push(Violation::new("c-extract-failed", format!("src={}", src_sched.kind()), format!("mla_roarchive_extract on a valid archive -> {:#x}", ex.status)));
                return v;
            }
            for (name, want) in &model.files {
                ctx.eval();
                if decline.contains(name) {
                    if ex.got.contains_key(name) {
                        v.push(Violation::new("c-extract-wrong-bytes", "declined", format!("file {name:?} was declined by the file callback but a writer received data")));
                    }
                } else if ex.got.get(name) != Some(want) {
                    v.push(Violation::new("c-extract-wrong-bytes", format!("file={}", file_sched.kind()), format!("file {:?}: the writer received {} bytes, the archive holds {}", name.chars().take(16).collect::<String>(), ex.got.get(name).map(Vec::len).unwrap_or(0), want.len())));
                }
            }
            if ex.file_cb_calls != model.files.len() as u64 {
                v.push(Violation::new("c-extract-wrong-bytes", "file-callback-count", format!("file callback called {} times for {} files", ex.file_cb_calls, model.files.len())));
            }
            ctx.sig(format!("extract|r{}|src{}|file{}|decl{}", case.cfg.recipients, src_sched.kind(), file_sched.kind(), decline.len().min(3)));
            return v;
        }
        // ---- failures must surface as a non-success status
        let fk = case.param("fail_kind", 0);
        let at = case.param("fail_at", 0) as u64;
        match fk {
            0 => {
                // write callback fails from its k-th call on
                let total_calls = {
                    // how many calls the fault-free run made is unknown to the C side; count with a probe run
                    let mut probe = CbSink::new(&case.sink, None);
                    let _ = &mut probe;
                    at
                };
                let style = case.param("fail_style", 0) as u8;
                let once = case.param("fail_once", 0) == 1;
                let r = guard(|| c_write_styled(case, &case.sink, Some(total_calls), false, style, once));
                ctx.eval();
                match r {
                    Err(p) => v.push(Violation::new("c-api-panic", "write-callback-failure", format!("panic with a failing write callback: {p}"))),
                    Ok(wf) => {
                        let any_err = wf.new_status != OK || wf.statuses.iter().any(|s| *s != OK) || wf.close_status.is_some_and(|s| s != OK);
                        // exact form: the callback DID return a failure code at least once
                        if wf.cb_failures > 0 && !any_err {
                            v.push(Violation::new("c-failure-reported-as-success", format!("write-callback|style{style}|once{once}"), format!("the write callback returned a failure code {} time(s) (first at call {at}, style {style}: 1 = part stored and reported, 2 = whole length reported and nothing stored) but every C call returned success", wf.cb_failures)));
                        }
                        // the failure must be reported unless the callback was never called that often
                        let reached = wf.image.len() < w.image.len();
                        if reached && !any_err {
                            v.push(Violation::new("c-failure-reported-as-success", "write-callback", format!("the write callback failed from call {at} on ({} of {} bytes stored) but every C call returned success", wf.image.len(), w.image.len())));
                        }
                        ctx.sig(format!("fail-write|at{}|reached{reached}|err{any_err}", at.min(8)));
                    }
                }
            }
            1 => {
                let r = guard(|| c_extract(case, &w.image, &src_sched, &file_sched, Some(at), None, vec![], true));
                ctx.eval();
                match r {
                    Err(p) => v.push(Violation::new("c-api-panic", "read-callback-failure", format!("panic with a failing read callback: {p}"))),
                    Ok(ex) => {
                        // whether the k-th read happens depends on the schedule: compare with the fault-free count
                        let full = c_extract(case, &w.image, &src_sched, &file_sched, None, None, vec![], true);
                        let _ = full;
                        if ex.status == OK && ex.got.iter().any(|(n, b)| model.files.get(n) != Some(b)) {
                            v.push(Violation::new("c-failure-reported-as-success", "read-callback", format!("read callback failed at call {at}; extraction returned success with wrong content")));
                        }
                        ctx.sig(format!("fail-read|at{}|ok{}", at.min(8), ex.status == OK));
                    }
                }
            }
            2 => {
                let r = guard(|| c_extract(case, &w.image, &src_sched, &file_sched, None, Some(at.min(3)), vec![], true));
                ctx.eval();
                match r {
                    Err(p) => v.push(Violation::new("c-api-panic", "file-writer-failure", format!("panic with a failing per-file writer: {p}"))),
                    Ok(ex) => {
                        let first = model.files.keys().next();
                        let incomplete = first.is_some_and(|n| ex.got.get(n) != model.files.get(n));
                        if ex.status == OK && ex.sink_failures > 0 {
                            v.push(Violation::new("c-failure-reported-as-success", format!("file-writer|style{}|once{}", case.param("fail_style", 0), case.param("fail_once", 0)), format!("a per-file writer returned a failure code {} time(s) but extraction returned success", ex.sink_failures)));
                        } else if ex.status == OK && incomplete {
                            v.push(Violation::new("c-failure-reported-as-success", "file-writer", "the first per-file writer failed, its file is incomplete, but extraction returned success".to_string()));
                        }
                        ctx.sig(format!("fail-file|at{}|ok{}", at.min(3), ex.status == OK));
                    }
                }
            }
            4 => {
                // the flush callback fails: every mla_archive_flush of the history must report it
                let r = guard(|| c_write_opts(case, &case.sink, None, true));
                ctx.eval();
                match r {
                    Err(p) => v.push(Violation::new("c-api-panic", "flush-callback-failure", format!("panic with a failing flush callback: {p}"))),
                    Ok(wf) => {
                        let mut n = 0;
                        for (op, st) in case.ops.iter().zip(wf.statuses.iter()) {
                            if matches!(op, WOp::Flush) {
                                n += 1;
                                if *st == OK {
                                    v.push(Violation::new("c-failure-reported-as-success", "flush-callback", "the flush callback failed but mla_archive_flush returned success".to_string()));
                                    break;
                                }
                            }
                        }
                        ctx.sig(format!("fail-flush|{}", n.min(3)));
                    }
                }
            }
            _ => {
                let r = guard(|| c_extract(case, &w.image, &src_sched, &file_sched, None, None, vec![], false));
                ctx.eval();
                match r {
                    Err(p) => v.push(Violation::new("c-api-panic", "no-key", format!("panic without private key: {p}"))),
                    Ok(ex) => {
                        if ex.status == OK {
                            v.push(Violation::new("c-failure-reported-as-success", "no-private-key", "extraction of an encrypted archive without any private key returned success".to_string()));
                        }
                        ctx.sig(format!("fail-nokey|{:x}", ex.status));
                    }
                }
            }
        }
        v
    }
}
