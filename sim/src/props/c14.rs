//! C14 After a flush, what was appended so far survives a cut (flush = sync, cut = crash).
use super::common::*;
use crate::model::*;
use crate::rng::Rng;
use crate::runner::{Case, Ctx, Fault, Prop, Tier, Violation};
use crate::seams::{Sched, SimSink};
use crate::sut::{consts_of, sut, ReadCfg};
use std::rc::Rc;

pub struct C14;

impl Prop for C14 {
    fn id(&self) -> &'static str {
        "C14"
    }
    fn level(&self) -> &'static str {
        "fault_enumeration"
    }
    fn rule(&self) -> String {
        "run = seeded valid writer history with Flush ops at PRNG-chosen points (one compressed production-size run in 30: 1800..2600 flushes, each after 1.5..2.5 KB of incompressible data, inside one compression block; four of those flushes are judged) (all layer sets and levels, every entropy class incl. zeros). The sink records the stored length at the instant each flush returns. Crash fault: for EVERY flush of the run the device dies immediately after the flush returned (image = bytes stored so far) and at later points up to the next flush (every later length on small images, 8 seeded lengths otherwise). Each crash image is repaired in unauthenticated mode (and in authenticated mode when encrypted) and read back. Oracle: every file holds at least the bytes appended before that flush (authenticated mode: at least the bytes lying in complete encryption chunks, computed from the stream geometry for encrypt-only archives) and never anything that is not a prefix of what was appended in total. distinct_nontrivial = distinct (variant, layers, level bucket, data classes, flush position class, mode, later-cut?) signatures.".into()
    }
    fn assumptions(&self) -> Vec<String> {
        vec![
            "the bytes the sink accepted before flush returned are durable; nothing after them is".into(),
            "authenticated-mode lower bound is claimed only where it can be computed independently (encryption without compression)".into(),
        ]
    }
    fn runs(&self, tier: Tier) -> u64 {
        match tier {
            Tier::Quick => 5000,
            Tier::Thorough => 120_000,
        }
    }
    fn make(&self, seed: u64, run: u64, tier: Tier) -> Case {
        let mut rng = Rng::derive(seed, "C14", run, "gen");
        let variant = pick_variant(&mut rng, tier);
        let vc = consts_of(variant);
        let mut c = vc.model_consts();
        let big = vc.chunk > 1000;
        if big {
            c.block = 2 * c.chunk;
            c.repair_cache = 4 * c.chunk;
        }
        let mut cfg = gen_cfg(&mut rng, variant, vc.hooks);
        if rng.chance(1, 3) {
            cfg.layers |= L_COMP;
        }
        let o = GenOpts { max_files: 3, max_ops: if big { 8 } else { 16 }, max_piece: 2 * c.block, max_total: if big { c.block + c.chunk } else { 5 * c.block }, interleave: rng.chance(1, 2), flushes: true, special_names: false, finalize: rng.chance(1, 2), piece_scheds: false };
        let mut ops = gen_ops(&mut rng, &c, &o);
        // make sure there is a flush after some data, with files possibly still open
        let pos = ops.iter().rposition(|o| matches!(o, WOp::Append { .. } | WOp::Add { .. })).map(|p| p + 1).unwrap_or(ops.len());
        ops.insert(pos, WOp::Flush);
        let mut aligned = None;
        if big && rng.chance(1, 2) {
            // production constants: solve the position of one flush onto / next to a REAL block edge
            // (compression: the block holds exactly 4 MiB, or 1 byte, when flush is called) or chunk edge (encryption only)
            // prefer a flush that directly follows appended content: then the last bytes of the full block are
            // file bytes (after an EndOfFile block they are the stored hash, whose loss costs no file byte)
            let flushes: Vec<usize> = (0..ops.len()).filter(|&i| matches!(ops[i], WOp::Flush)).collect();
            let after_content: Vec<usize> = flushes.iter().copied().filter(|&i| i > 0 && matches!(&ops[i - 1], WOp::Append { data, .. } if data.len() > 0)).collect();
            let chosen = if !after_content.is_empty() && rng.chance(3, 4) { Some(*rng.pick(&after_content)) } else { flushes.last().copied() };
            if let Some(fi) = chosen {
                let (m, r) = if cfg.comp() {
                    cfg.level = cfg.level.min(5);
                    (vc.block as usize, *rng.pick(&[0usize, 0, 1, vc.block as usize - 1]))
                } else {
                    (vc.chunk as usize, *rng.pick(&[0usize, 1, 15, 16, 17, vc.chunk as usize - 1]))
                };
                if cfg.comp() || cfg.enc() {
                    let (head, _) = ops.split_at_mut(fi);
                    if align_stream(head, m, r) {
                        aligned = Some((m, r));
                    }
                }
            }
        }
        if big && cfg.comp() && rng.chance(1, 30) {
            // production constants: thousands of flushes, each after a small piece of incompressible data, inside ONE
            // compression block (every data-bearing flush closes a meta-block and costs the stream a few bytes)
            cfg.level = *rng.pick(&[0u32, 1, 2, 5, 5, 9]);
            let piece = rng.range(1500, 2500) as usize;
            let n = rng.range(1800, 2600) as usize;
            ops = vec![WOp::Start { f: 0, name: Name::lit("dense") }];
            for _ in 0..n {
                ops.push(WOp::Append { f: 0, data: Data::Rand { n: piece, seed: rng.u64() }, src: Src::exact() });
                ops.push(WOp::Flush);
            }
            if rng.chance(1, 2) {
                ops.push(WOp::End { f: 0 });
                ops.push(WOp::Finalize);
            }
            aligned = None;
        }
        let mut case = Case::new("C14", cfg, ops);
        // the destination may also split and interrupt transfers while flushes happen
        if !big && rng.chance(1, 3) {
            case.sink = crate::seams::Sched::make(&mut rng, true);
        }
        case.params.insert("later_seed".into(), (rng.u64() >> 1) as i64);
        if let Some((m, r)) = aligned {
            case.params.insert("aligned_mod".into(), m as i64);
            case.params.insert("aligned_res".into(), r as i64);
        }
        case
    }
    fn exec(&self, case: &Case, ctx: &mut Ctx) -> Vec<Violation> {
        let mut v = Vec::new();
        let s = sut(&case.cfg.variant);
        let vc = s.consts();
        let chunk = vc.chunk as usize;
        let sink = SimSink::new(&case.sink);
        let w = s.write(&case.cfg, &case.ops, sink.clone());
        if w.panic.is_some() || w.from_config_err.is_some() || w.results.iter().any(Result::is_err) {
            v.push(Violation::new("workload-write-failed", "write", format!("writing the workload failed: panic {:?}, from_config {:?}, first failed call {:?}", w.panic, w.from_config_err, w.results.iter().find(|r| r.is_err()))));
            return v;
        }
        let image = sink.data();
        let total = model_of(&case.ops);
        let hlen = header_len(&case.cfg);
        let ocfg = ArcCfg { variant: case.cfg.variant.clone(), layers: 0, level: 0, recipients: 0, reader: 0, rng_seed: 0, key_seed: 0 };
        let plain = ReadCfg { keys: vec![], sched: Sched::Full, budget: u64::MAX / 2, error_at_read: None, spill_path: None, explicit_auth_mode: false, replay: None };
        let rcfg = ReadCfg::for_cfg(&case.cfg);
        let mut lrng = Rng::new(case.param("later_seed", 1) as u64);
        let explicit: Vec<usize> = case.faults.iter().filter_map(|f| if let Fault::Cut { n } = f { Some(*n) } else { None }).collect();
        let classes: Vec<&str> = {
            let mut c: Vec<&str> = case.ops.iter().filter_map(|o| if let WOp::Append { data, .. } | WOp::Add { data, .. } = o { Some(data.class()) } else { None }).collect();
            c.sort();
            c.dedup();
            c
        };
        // histories with very many flushes: the first, the last and two seeded ones are judged (crash exactly at the flush)
        let many = w.flush_marks.len() > 40;
        let picked: Vec<usize> = if many {
            let n = w.flush_marks.len();
            vec![0, n - 1, lrng.usize_below(n), n - 1 - lrng.usize_below(n / 4 + 1)]
        } else {
            Vec::new()
        };
        for (fi, (op_idx, mark)) in w.flush_marks.iter().enumerate() {
            if many && !picked.contains(&fi) {
                continue;
            }
            let before = model_prefix(&case.ops, *op_idx);
            let next_mark = w.flush_marks.get(fi + 1).map(|m| m.1).unwrap_or(image.len());
            // crash right after the flush, and at later points before the next flush
            let mut cuts = vec![*mark];
            if next_mark > *mark {
                if many {
                    if fi + 1 == w.flush_marks.len() {
                        cuts.push(next_mark - 1);
                    }
                } else if next_mark - mark <= 48 {
                    cuts.extend(mark + 1..next_mark);
                } else {
                    for _ in 0..8 {
                        cuts.push(lrng.range(*mark as u64 + 1, next_mark as u64 - 1) as usize);
                    }
                    cuts.push(mark + 1);
                    cuts.push(next_mark - 1);
                }
            }
            cuts.sort();
            cuts.dedup();
            if !explicit.is_empty() {
                cuts.retain(|c| explicit.contains(c));
            }
            for n in cuts {
                let img = Rc::new(image[..n].to_vec());
                let modes: &[bool] = if case.cfg.enc() { &[false, true] } else { &[false] };
                for &auth in modes {
                    let out = s.repair(img.clone(), &rcfg, auth, &ocfg, &Sched::Full);
                    crate::seams::fired(if n == *mark { "crash_at_flush" } else { "crash_after_flush" });
                    ctx.eval();
                    let cls = format!("{}|auth={auth}", if case.cfg.comp() { "comp" } else { "nocomp" });
                    let fault = Fault::Cut { n };
                    if out.panic.is_some() || out.init.is_err() || !matches!(out.convert, Some(Ok(_))) {
                        // soundness of repair itself is C02's clause; here it means nothing was recovered
                        if before.files.values().any(|b| !b.is_empty()) {
                            v.push(Violation::new("flushed-data-lost", format!("{cls}|repair-failed"), format!("flush #{fi} (op {op_idx}) at {mark} bytes, crash at {n}: repair failed ({:?} {:?} {:?})", out.panic, out.init.as_ref().err(), out.convert.as_ref().and_then(|c| c.as_ref().err()))).with_fault(fault));
                        }
                        continue;
                    }
                    let rec = match read_all(s, &Rc::new(out.out_image.clone()), &plain) {
                        Ok(r) => r,
                        Err(e) => {
                            v.push(Violation::new("flushed-data-lost", format!("{cls}|unreadable"), format!("crash at {n}: repaired archive unreadable: {e}")).with_fault(fault));
                            continue;
                        }
                    };
                    let st = out.convert.as_ref().unwrap().as_ref().unwrap();
                    // lower bound
                    let auth_bound = if auth {
                        if case.cfg.comp() {
                            None // not independently computable: no lower bound claimed
                        } else {
                            // complete chunks of a crash image: only full CHUNK+16 units (the tag of the
                            // current chunk is written at roll-over or finalize), unless this is the finished stream
                            let l = n.saturating_sub(hlen);
                            let finished = n == image.len() && matches!(case.ops.last(), Some(WOp::Finalize));
                            Some(if finished { enc_plain_len(l, chunk) } else { (l / (chunk + 16)) * chunk })
                        }
                    } else {
                        None
                    };
                    for (name, want) in &before.files {
                        let got = rec.get(name).cloned().unwrap_or_default();
                        let nm: String = name.chars().take(16).collect();
                        let all = &total.files[name];
                        if !all.starts_with(&got) {
                            v.push(Violation::new("flushed-not-prefix", cls.clone(), format!("crash at {n}: file {nm:?} recovered {} bytes that are not a prefix of what was appended", got.len())).with_fault(fault.clone()));
                            continue;
                        }
                        if !auth {
                            if got.len() < want.len() {
                                v.push(Violation::new("flushed-data-lost", cls.clone(), format!("flush #{fi} (op {op_idx}) returned with {mark} bytes stored; crash at {n}; file {nm:?}: {} bytes were appended before the flush, {} recovered (status {} {})", want.len(), got.len(), st.stop, st.detail)).with_fault(fault.clone()));
                            }
                        } else if let Some(avail) = auth_bound {
                            // bytes of this file lying in complete (authenticated) chunks: parse the verified plaintext prefix
                            if let Some(p) = &w.enc_params {
                                let d = crate::refmla::decrypt_stream(&p.0, &p.1, &image[hlen..n], chunk);
                                let prefix = &d.plain[..avail.min(d.plain.len())];
                                let (blocks, _) = crate::refmla::parse_blocks(prefix);
                                let truth = crate::refmla::files_from_blocks(prefix, &blocks);
                                let t = truth.get(name).map(|f| f.bytes.len()).unwrap_or(0);
                                if got.len() < t {
                                    v.push(Violation::new("flushed-data-lost", cls.clone(), format!("crash at {n}, authenticated mode: file {nm:?}: {t} bytes lie in complete chunks, {} recovered", got.len())).with_fault(fault.clone()));
                                }
                            }
                        }
                    }
                    let pos_class = if n == *mark { "at-flush" } else { "after-flush" };
                    ctx.sig(format!("{}|{}|l{}|{}|{}|a{}|open{}", case.cfg.variant, case.cfg.layer_name(), case.cfg.level / 4, classes.join("+"), pos_class, auth, st.unfinished.is_some()));
                }
            }
            if v.len() > 30 {
                break;
            }
        }
        v
    }
}
