//! C12 Linear extraction equals per-file extraction and notices truncation.
use super::common::*;
use crate::model::*;
use crate::refmla;
use crate::rng::Rng;
use crate::runner::{Case, Ctx, Prop, Tier, Violation};
use crate::seams::{Sched, SimSink};
use crate::sut::{consts_of, sut, ReadCfg};
use std::rc::Rc;

pub struct C12;

const M_LIB: i64 = 0;
const M_NOMARK: i64 = 1;
const M_CUTBLOCK: i64 = 2;
const M_SINKFAIL: i64 = 3;

impl Prop for C12 {
    fn id(&self) -> &'static str {
        "C12"
    }
    fn level(&self) -> &'static str {
        "exploration"
    }
    fn rule(&self) -> String {
        "run kinds. huge (run 0; thorough: runs 0..3): a content block of 2^32 + up to 32 MiB bytes between two small files, streamed through compression (alone / over encryption) at production constants; every name chosen, counting sinks: Ok, and every sink gets exactly its file's length. lib: seeded valid writer history (any interleaving, all layer sets; one run in twelve with 65..300 files of which 1-3 stay open across dozens of others; now and then 17..1000 recipients) written by the library (one scaled run in eight: the same files in an archive of the independent writer, with its own ids, index form and empty blocks), then linear_extract (one scaled run in four: through a source that returns short reads) into a seeded subset of the names (empty, one, some, all, plus a name that is not in the archive), each chosen name with its own simulated sink under a seeded transfer schedule (1 byte, 1..n, Interrupted bursts): every chosen sink must hold exactly the model's bytes for that name (= what get_file returns, C01/C10), nothing else exists to receive data, the result is Ok. nomark / cutblock: the format model's foreign writer builds an archive (all layer sets) whose index is intact but whose block stream has no end-of-data marker, or is cut inside a content block - two times in three so that the byte right before the index, where the marker should be, is FE / 00 / 01 / FF (for a missing marker: a tiny last file whose SHA-256 ends with that byte); at production constants half of these runs put 4..7 MiB of a file that is not chosen after the small chosen one -: the archive opens, and linear_extract must return Err (the model first checks that the bytes following the blocks cannot be mistaken for a marker). sinkfail: the first chosen sink fails at its k-th write: the result must be Err. distinct_nontrivial = distinct (kind, variant, layers, subset class, interleaved, sink schedule kind, outcome) signatures.".into()
    }
    fn assumptions(&self) -> Vec<String> {
        vec!["archives with an early or duplicated marker, reused ids or other hostile shapes are C08 inputs, not C12 ones".into()]
    }
    fn runs(&self, tier: Tier) -> u64 {
        match tier {
            Tier::Quick => 8000,
            Tier::Thorough => 200_000,
        }
    }
    fn make(&self, seed: u64, run: u64, tier: Tier) -> Case {
        let mut rng = Rng::derive(seed, "C12", run, "gen");
        if run == 0 || (tier == Tier::Thorough && run < 4) {
            // one content block of more than 2^32 bytes (period 251) between two small files, streamed through compression
            // (alone / over encryption): every name chosen, sinks that only count
            let layers = if run % 2 == 0 { L_COMP } else { L_COMP | L_ENC };
            let cfg = ArcCfg { variant: "prodv".into(), layers, level: 1, recipients: usize::from(layers & 1 != 0), reader: 0, rng_seed: run + 21, key_seed: 12 };
            let n = (1usize << 32) + rng.range(1, 32 << 20) as usize;
            let ops = vec![
                WOp::Add { name: Name::lit("a"), data: Data::Text { n: 3000, seed: 1 }, src: Src::exact() },
                WOp::Start { f: 1, name: Name::lit("big") },
                WOp::Append { f: 1, data: Data::Period { n, p: 251 }, src: Src { sched: Sched::Full, short_by: 0, extra: 0, stream: true } },
                WOp::End { f: 1 },
                WOp::Add { name: Name::lit("z"), data: Data::Text { n: 5000, seed: 2 }, src: Src::exact() },
                WOp::Finalize,
            ];
            let mut case = Case::new("C12", cfg, ops);
            case.params.insert("huge".into(), n as i64);
            return case;
        }
        let variant = pick_variant(&mut rng, tier);
        let vc = consts_of(variant);
        let mut c = vc.model_consts();
        let big = vc.chunk > 1000;
        if big {
            c.block = 2 * c.chunk;
            c.repair_cache = 4 * c.chunk;
        }
        let cfg = gen_cfg(&mut rng, variant, vc.hooks);
        let mode = *rng.pick(&[M_LIB, M_LIB, M_LIB, M_NOMARK, M_CUTBLOCK, M_SINKFAIL]);
        let o = GenOpts { max_files: 6, max_ops: if big { 10 } else { 30 }, max_piece: 2 * c.block, max_total: if big { c.block + c.chunk } else { 6 * c.block }, interleave: rng.chance(4, 5), flushes: false, special_names: mode == M_LIB, finalize: true, piece_scheds: false };
        let mut ops = gen_ops(&mut rng, &c, &o);
        let mut cfg = cfg;
        if !big && mode == M_LIB && rng.chance(1, 12) {
            // many files, a few of them open across dozens of other files (ids beyond what small archives have)
            let n = *rng.pick(&[65usize, 66, 70, 100, 129, 140, 200, 300]);
            let ll = rng.range(1, 3) as usize;
            ops = gen_many_files(&mut rng, n, ll, 40);
        }
        maybe_many_recipients(&mut rng, &mut cfg, 40);
        // production constants, truncated shapes: a small chosen file followed by MiB of a file that is not chosen
        let far_tail = big && (mode == M_NOMARK || mode == M_CUTBLOCK) && rng.chance(1, 2);
        if far_tail {
            cfg.level = cfg.level.min(3);
            let n = rng.range(4 << 20, 7 << 20) as usize + rng.usize_below(4096);
            ops = vec![WOp::Add { name: Name::lit("wanted"), data: Data::Text { n: rng.range(1, 3000) as usize, seed: rng.u64() }, src: Src::exact() }, WOp::Add { name: Name::lit("ignored"), data: Data::Rand { n, seed: rng.u64() }, src: Src::exact() }, WOp::Finalize];
        }
        let mut case = Case::new("C12", cfg, ops);
        case.params.insert("mode".into(), mode);
        case.params.insert("subset".into(), if far_tail { 1 } else { match rng.below(5) {
            0 => 0,
            1 => 1 << rng.below(6),
            2 => 0x3f,
            _ => rng.below(64) as i64,
        } });
        case.params.insert("far_tail".into(), i64::from(far_tail));
        case.params.insert("src_short".into(), i64::from(!big && rng.chance(1, 4)));
        if !big && (mode == M_LIB || mode == M_SINKFAIL) && rng.chance(1, 8) {
            case.params.insert("foreign".into(), 1);
        }
        case.params.insert("extra_name".into(), i64::from(!far_tail && rng.chance(1, 4)));
        case.params.insert("plan_seed".into(), (rng.u64() >> 1) as i64);
        case.params.insert("fail_call".into(), rng.range(0, 6) as i64);
        case.sink = if big { Sched::Full } else { Sched::make(&mut rng, true) };
        case
    }
    fn exec(&self, case: &Case, ctx: &mut Ctx) -> Vec<Violation> {
        let mut v = Vec::new();
        let s = sut(&case.cfg.variant);
        let vc = s.consts();
        if case.param("huge", 0) > 0 {
            let n = case.param("huge", 0) as u64;
            crate::seams::fired("content_block_longer_than_2_pow_32");
            let sink = SimSink::new(&Sched::Full);
            let w = s.write(&case.cfg, &case.ops, sink.clone());
            if w.panic.is_some() || w.from_config_err.is_some() || w.results.iter().any(Result::is_err) {
                v.push(Violation::new("workload-write-failed", "write", format!("writing the workload failed: panic {:?}, from_config {:?}, first failed call {:?}", w.panic, w.from_config_err, w.results.iter().find(|r| r.is_err()))));
                return v;
            }
            let names = vec!["a".to_string(), "big".to_string(), "z".to_string()];
            let out = s.linear_opts(Rc::new(sink.data()), &ReadCfg::for_cfg(&case.cfg), &names, &Sched::Full, None, false);
            ctx.eval();
            let cls = format!("huge|{}", case.cfg.layer_name());
            if let Some(p) = &out.panic {
                v.push(Violation::new("linear-panic", format!("huge|{}", super::repair::panic_class(p)), format!("linear_extract panicked: {p}")));
            } else if !matches!(out.result, Some(Ok(()))) {
                v.push(Violation::new("linear-failed", cls.clone(), format!("linear_extract on a valid archive holding a {n}-byte content block failed: {:?} {:?}", out.open, out.result)));
            }
            for (name, want) in [("a", 3000u64), ("big", n), ("z", 5000)] {
                let got = out.lens.get(name).copied().unwrap_or(0);
                if got != want {
                    v.push(Violation::new("linear-wrong-bytes", cls.clone(), format!("sink of {name:?}: {got} bytes delivered, the file has {want}")));
                }
            }
            ctx.sig(cls);
            return v;
        }
        let mode = case.param("mode", M_LIB);
        let model = model_of(&case.ops);
        let par = refmla::Params { chunk: vc.chunk as usize, block: vc.block as usize };
        let mut expect_err = false;
        let image: Vec<u8> = if mode == M_NOMARK || mode == M_CUTBLOCK {
            let mut files: Vec<(String, Vec<u8>)> = model.order.iter().map(|n| (n.clone(), model.files[n].clone())).collect();
            let mut prng = Rng::new(case.param("plan_seed", 1) as u64);
            let mut plan = Vec::new();
            let far_tail = case.param("far_tail", 0) == 1;
            for _ in 0..prng.range(0, if far_tail { 1 } else { 10 }) {
                if !files.is_empty() {
                    plan.push((prng.usize_below(files.len()), prng.range(1, 3 * par.chunk as u64) as usize));
                }
            }
            // the byte that ends up right before the index, where the end marker should be, is made to LOOK like a block
            // type (FE end marker, 00 / 01 / FF): for a missing marker it is the last byte of the last stored hash, so
            // one more tiny file is added whose SHA-256 ends with that byte
            let look = *prng.pick(&[0xFEu8, 0xFE, 0x00, 0x01, 0xFF]);
            if mode == M_NOMARK && prng.chance(1, 2) {
                for k in 0..100_000u32 {
                    let content = format!("z{k}").into_bytes();
                    if sha256(&content)[31] == look {
                        crate::seams::fired("last_byte_before_index_looks_like_a_block_type");
                        files.push(("zz-last".to_string(), content));
                        break;
                    }
                }
            }
            let full = refmla::well_formed_stream(&files, &plan);
            let Ok(idx) = refmla::parse_index(&full) else { return v };
            let marker = idx.at - 1;
            let mut stream = if mode == M_NOMARK {
                full[..marker].to_vec()
            } else {
                // cut inside a content block, if there is one with data
                let (blocks, _) = refmla::parse_blocks(&full[..idx.at]);
                let content: Vec<(usize, usize)> = blocks.iter().filter_map(|b| if let refmla::FBlock::Content { data_at, avail, .. } = b { if *avail > 1 { Some((*data_at, *avail)) } else { None } } else { None }).collect();
                if content.is_empty() {
                    full[..marker].to_vec()
                } else {
                    // the last content block with data (so that in the far-tail shape MiB of skipped data precede the cut)
                    let (at, n) = if far_tail { *content.last().unwrap() } else { content[prng.usize_below(content.len())] };
                    let mut k = prng.range(1, n as u64 - 1) as usize;
                    if far_tail {
                        k = k.max(n.saturating_sub(1 << 20).max(1));
                    }
                    // move the cut forward (at most 8 KiB) until the last byte kept looks like a block type
                    if prng.chance(2, 3) {
                        if let Some(d) = (0..8192.min(n - 1 - k)).find(|d| full[at + k + d - 1] == look) {
                            crate::seams::fired("last_byte_before_index_looks_like_a_block_type");
                            k += d;
                        }
                    }
                    full[..at + k].to_vec()
                }
            };
            stream.extend_from_slice(&full[idx.at..]);
            // the bytes after the blocks must not read as blocks ending in a marker
            let (_, end) = refmla::parse_blocks(&stream);
            if matches!(end, refmla::ParseEnd::Marker(_)) {
                ctx.probe("ambiguous-foreign-image-skipped");
                return v;
            }
            expect_err = true;
            let mut r2 = Rng::new(case.cfg.rng_seed ^ 0x9999);
            let mut key = [0u8; 32];
            r2.fill(&mut key);
            let mut nonce = [0u8; 8];
            r2.fill(&mut nonce);
            let mut eph = [0u8; 32];
            r2.fill(&mut eph);
            let spec = refmla::EncSpec { key, nonce, eph_priv: eph, recipients: (0..case.cfg.recipients).map(|i| refmla::pub_of(&key_bytes(case.cfg.key_seed, i))).collect() };
            refmla::wrap(&stream, case.cfg.layers & 3, case.cfg.level, Some(&spec), par)
        } else if case.param("foreign", 0) == 1 && model.order.len() == model.files.len() && model.order.iter().all(|n| n.len() <= 65536) {
            // the same files in a complete archive of the independent writer (its own ids, index form, empty blocks...)
            foreign_image(&case.cfg, &model, par.chunk, par.block, case.param("plan_seed", 1) as u64 ^ 0xF0)
        } else {
            let sink = SimSink::new(&Sched::Full);
            let w = s.write(&case.cfg, &case.ops, sink.clone());
            if w.panic.is_some() || w.from_config_err.is_some() || w.results.iter().any(Result::is_err) {
                v.push(Violation::new("workload-write-failed", "write", format!("writing the workload failed: panic {:?}, from_config {:?}, first failed call {:?}", w.panic, w.from_config_err, w.results.iter().find(|r| r.is_err()))));
                return v;
            }
            sink.data()
        };
        let mask = case.param("subset", 0) as u64;
        let mut subset: Vec<String> = model.order.iter().enumerate().filter(|(i, _)| mask & (1 << (i % 6)) != 0).map(|(_, n)| n.clone()).collect();
        if mode == M_SINKFAIL && subset.is_empty() {
            subset = model.order.iter().take(1).cloned().collect();
        }
        if case.param("extra_name", 0) == 1 {
            subset.push("not-in-the-archive".to_string());
        }
        let mut fail = None;
        if mode == M_SINKFAIL {
            // only meaningful if the first chosen sink receives at least that many write calls
            fail = Some(case.param("fail_call", 0) as u64);
        }
        let mut rcfg = ReadCfg::for_cfg(&case.cfg);
        if case.param("src_short", 0) == 1 {
            // the archive itself is read through a source that returns short reads (a read may end inside a block header)
            rcfg.sched = Sched::make(&mut Rng::new(case.param("plan_seed", 1) as u64 ^ 0x51C), false);
        }
        let out = s.linear(Rc::new(image), &rcfg, &subset, &case.sink, fail);
        ctx.eval();
        let kind = ["lib", "nomark", "cutblock", "sinkfail"][mode as usize];
        let cls = format!("{kind}|{}", case.cfg.layer_name());
        if let Some(p) = &out.panic {
            v.push(Violation::new("linear-panic", format!("{kind}|{}", super::repair::panic_class(p)), format!("linear_extract panicked: {p}")));
            return v;
        }
        if let Err(e) = &out.open {
            v.push(Violation::new("linear-open-failed", cls.clone(), format!("archive does not open: {e}")));
            return v;
        }
        let res = out.result.clone().unwrap_or(Err("no result".into()));
        let mut outcome = if res.is_ok() { "ok" } else { "err" };
        if expect_err {
            if res.is_ok() {
                v.push(Violation::new("linear-ok-without-marker", cls.clone(), "linear_extract returned Ok although the end-of-data marker is not in the block stream".to_string()));
            }
        } else if mode == M_SINKFAIL {
            let first_len = subset.first().and_then(|n| model.files.get(n)).map(Vec::len).unwrap_or(0);
            let failed_for_sure = first_len > 0 && fail == Some(0);
            if failed_for_sure && res.is_ok() {
                v.push(Violation::new("linear-ok-after-sink-error", cls.clone(), "the first chosen sink failed on its first write but linear_extract returned Ok".to_string()));
            }
            // whenever the sink did fail, the result must be Err: detect through what the sink holds
            if let (Ok(()), Some(n)) = (&res, subset.first()) {
                if let Some(want) = model.files.get(n) {
                    if out.got.get(n) != Some(want) {
                        v.push(Violation::new("linear-ok-after-sink-error", cls.clone(), format!("Ok returned but the failing sink holds {} of {} bytes", out.got.get(n).map(Vec::len).unwrap_or(0), want.len())));
                    }
                }
            }
            outcome = if res.is_ok() { "ok-not-reached" } else { "err" };
        } else {
            if let Err(e) = &res {
                v.push(Violation::new("linear-failed", cls.clone(), format!("linear_extract on a valid archive failed: {e}")));
            }
            for n in &subset {
                ctx.eval();
                let got = out.got.get(n).cloned().unwrap_or_default();
                let want = model.files.get(n).cloned().unwrap_or_default();
                if got != want {
                    v.push(Violation::new("linear-wrong-bytes", format!("{cls}|sink={}", case.sink.kind()), format!("sink of {:?}: {} bytes, per-file extraction gives {} (first difference at {})", n.chars().take(16).collect::<String>(), got.len(), want.len(), first_diff(&got, &want))));
                }
            }
        }
        let inter = case.ops.windows(2).any(|w| matches!((&w[0], &w[1]), (WOp::Append { f: a, .. }, WOp::Append { f: b, .. }) if a != b));
        let sc = if subset.is_empty() { "none" } else if subset.len() >= model.files.len() { "all" } else if subset.len() == 1 { "one" } else { "some" };
        ctx.sig(format!("{kind}|{}|{}|{sc}|i{inter}|{}|{outcome}", case.cfg.variant, case.cfg.layer_name(), case.sink.kind()));
        v
    }
}
