//! C11 Each layer reader behaves like a plain seekable byte stream.
use super::common::*;
use crate::model::*;
use crate::rng::Rng;
use crate::runner::{Case, Ctx, Prop, Tier, Violation};
use crate::seams::{Sched, SimSink};
use crate::sut::{consts_of, sut, LOp, LRes, ReadCfg};
use std::rc::Rc;

pub struct C11;

/// systematic part: content length sweep on s0 (E, C, CE, none) then s1
const SYS_S0: u64 = 4 * 300;
const SYS_S1: u64 = 2 * 300;

fn gen_hist(rng: &mut Rng, len: u64, nops: usize, unit: u64) -> Vec<LOp> {
    let mut ops = Vec::new();
    let target = |rng: &mut Rng| -> u64 {
        match rng.below(8) {
            0 => 0,
            1 => len,
            2 => len.saturating_sub(rng.below(18)),
            3 | 4 => {
                // around a unit boundary
                let k = rng.below(len / unit.max(1) + 2);
                (k * unit + rng.below(5)).saturating_sub(2).min(len)
            }
            _ => rng.range(0, len),
        }
    };
    for _ in 0..nops {
        match rng.below(10) {
            0 | 1 => ops.push(LOp::SeekStart { p: target(rng) }),
            2 => ops.push(LOp::SeekCurTo { p: target(rng) }),
            3 => ops.push(LOp::SeekEndTo { p: target(rng) }),
            4 => ops.push(LOp::Pos),
            5 => ops.push(LOp::SeekCur0),
            _ => {
                let n = match rng.below(6) {
                    0 => 0,
                    1 => 1,
                    2 => unit as usize,
                    3 => unit as usize + 1,
                    4 => rng.range(0, 3 * unit) as usize,
                    _ => rng.range(1, 40) as usize,
                };
                ops.push(LOp::Read { n });
            }
        }
    }
    ops
}

/// The plaintext a history is judged against: in memory, or - for plaintexts beyond 2^32 bytes - its first block,
/// its last blocks and zeros in between (what the workload wrote), never materialised
enum Plain<'a> {
    Mem(&'a [u8]),
    /// `mid`: (stream offset where the streamed piece's data starts, its period p): byte q of the middle is
    /// ((q - start) % p) as u8; None = zeros
    Huge { len: u64, head: Vec<u8>, tail: Vec<u8>, mid: Option<(u64, u64)> },
    /// the plaintext `stream` with its block `k` (of `block` bytes) seen `times` times in a row
    Replay { stream: Vec<u8>, k: u64, times: u64, block: u64 },
}

impl Plain<'_> {
    fn len(&self) -> u64 {
        match self {
            Plain::Mem(p) => p.len() as u64,
            Plain::Huge { len, .. } => *len,
            Plain::Replay { stream, times, block, .. } => stream.len() as u64 + (times - 1) * block,
        }
    }
    /// up to n bytes at pos
    fn at(&self, pos: u64, n: usize) -> Vec<u8> {
        let len = self.len();
        let pos = pos.min(len);
        let n = (n as u64).min(len - pos) as usize;
        match self {
            Plain::Mem(p) => p[pos as usize..pos as usize + n].to_vec(),
            Plain::Replay { stream, k, times, block } => (pos..pos + n as u64)
                .map(|q| {
                    let b = q / block;
                    let ob = if b <= *k { b } else if b < k + times { *k } else { b - (times - 1) };
                    stream[(ob * block + q % block) as usize]
                })
                .collect(),
            Plain::Huge { len, head, tail, mid } => {
                let tail_at = len - tail.len() as u64;
                (pos..pos + n as u64)
                    .map(|q| {
                        if q < head.len() as u64 {
                            head[q as usize]
                        } else if q >= tail_at {
                            tail[(q - tail_at) as usize]
                        } else {
                            match mid {
                                Some((start, p)) => ((q - start) % p) as u8,
                                None => 0,
                            }
                        }
                    })
                    .collect()
            }
        }
    }
}

/// histories for plaintexts beyond 2^32 bytes: targets and distances around 2^31, 2^32, block edges, the ends
fn gen_hist_huge(rng: &mut Rng, len: u64, nops: usize, block: u64) -> Vec<LOp> {
    let mut ops = Vec::new();
    let mut cur: u64 = 0;
    let near = |rng: &mut Rng, x: u64| -> u64 { (x + rng.below(5)).saturating_sub(2).min(len) };
    for _ in 0..nops {
        let t = match rng.below(12) {
            0 => 0,
            1 => len,
            2 => len.saturating_sub(rng.below(100)),
            3 => near(rng, 1 << 32),
            4 => near(rng, 1 << 31),
            5 => {
                let k = rng.below(len / block + 1);
                near(rng, k * block)
            }
            // a RELATIVE jump of (almost) 2^32 / 2^31, forwards from inside an early block or backwards from inside a
            // late one: the cursor is first put where the jump fits and a few bytes are read there
            6 | 7 => {
                let inside = rng.range(1, block);
                let d = *rng.pick(&[(1u64 << 32) - 1, 1 << 32, (1 << 32) + 1, (1 << 32) - block / 4, (1 << 32) - block + 1, (1 << 32) - inside, 1 << 31, (1 << 31) - 1, (1 << 31) + 1]);
                if d < len {
                    let fwd = rng.chance(1, 2);
                    let room = len - d;
                    let from = if fwd { rng.range(0, room) } else { len - rng.range(0, room) };
                    ops.push(LOp::SeekStart { p: from });
                    let n = *rng.pick(&[0usize, 1, 7, 100]);
                    ops.push(LOp::Read { n });
                    let at = (from + n as u64).min(len);
                    let t = if fwd { (at + d).min(len) } else { at.saturating_sub(d) };
                    ops.push(LOp::SeekCurTo { p: t });
                    ops.push(LOp::Read { n: 13 });
                    cur = (t + 13).min(len);
                    continue;
                }
                cur
            }
            8 => rng.range(0, block),
            _ => rng.range(0, len),
        };
        match rng.below(6) {
            0 | 1 => ops.push(LOp::SeekStart { p: t }),
            2 | 3 => ops.push(LOp::SeekCurTo { p: t }),
            4 => ops.push(LOp::SeekEndTo { p: t }),
            _ => ops.push(LOp::Pos),
        }
        if !matches!(ops.last(), Some(LOp::Pos)) {
            cur = t;
        }
        let n = *rng.pick(&[0usize, 1, 5, 13, 64, 300]);
        ops.push(LOp::Read { n });
        cur = (cur + n as u64).min(len);
        if rng.chance(1, 4) {
            ops.push(LOp::SeekCur0);
        }
    }
    ops
}

/// runs whose compression-layer plaintext is longer than 2^32 bytes
fn huge_runs(tier: Tier) -> u64 {
    match tier {
        Tier::Quick => 2,
        Tier::Thorough => 8,
    }
}

/// runs whose COMPRESSED stream is longer than 2^32 bytes (one incompressible block seen a thousand times)
fn replay_runs(tier: Tier) -> u64 {
    match tier {
        Tier::Quick => 1,
        Tier::Thorough => 6,
    }
}

impl Prop for C11 {
    fn id(&self) -> &'static str {
        "C11"
    }
    fn level(&self) -> &'static str {
        "exploration"
    }
    fn rule(&self) -> String {
        "run = a finalized archive written by the library, whose layer plaintexts are obtained from the independent format model (decrypt / decompress by refmla); a layer reader stack is built exactly as `mlar info` builds it (header parsed, raw layer pinned after the header, then 0, 1 or 2 of the enabled layers) over the simulated source, and a seeded history of 30 operations (250 on the one scaled run in 40 whose plaintext spans 260..700 blocks or more than 65535 chunks) {seek from start / current / end to any target in [0, len] (biased to 0, len, len-k, chunk and block edges +-2), stream_position, read of 0/1/unit/unit+1/random bytes} is played against a std::io::Cursor over the same plaintext: identical positions, identical bytes, a read returns >= 1 byte unless asked for 0 or at the end. The 2 (thorough: 8) runs after the sweep stream a file of 2^32 + a few MiB bytes (period 251, so that content 2^31 or 2^32 apart differs; zeros on one run in four) through the compression layer (alone / over encryption, production constants) and play 40-step histories with targets and relative distances around 2^31, 2^32, block edges and both ends against a model that holds the first and last blocks (decoded by the format model) and the periodic content in between. The first 1800 runs sweep the content length 0..299 on s0 (all four layer sets) and s1 (E, CE) so that every residue of the plaintext length modulo CHUNK (and lengths below one tag, exact multiples) and modulo BLOCK occurs. distinct_nontrivial = distinct (variant, layers, depth, length class vs CHUNK, vs BLOCK, op kinds seen) signatures. One run in three reads through a source that returns short reads (1 byte per call, or 1..m bytes for m in 2..4096); one in twelve through a source that answers `Interrupted` to one call in 3..12 (bursts included): the driver makes the refused call again - a read as it was, a seek as an absolute seek to the same target - and the comparison with the cursor is unchanged. One run (six in the thorough tier) has a COMPRESSED stream beyond 2^32 bytes: three blocks of noise written by the library, the second seen about 1040 times through a generated source, sizes footer rebuilt; the cursor model replays the same block.".into()
    }
    fn assumptions(&self) -> Vec<String> {
        vec!["seek targets are confined to [0, len] as the property states; a read may return fewer bytes than asked".into()]
    }
    fn runs(&self, tier: Tier) -> u64 {
        match tier {
            Tier::Quick => SYS_S0 + SYS_S1 + 6000 + huge_runs(tier) + replay_runs(tier),
            Tier::Thorough => SYS_S0 + SYS_S1 + 200_000 + huge_runs(tier) + replay_runs(tier),
        }
    }
    fn make(&self, seed: u64, run: u64, tier: Tier) -> Case {
        let mut rng = Rng::derive(seed, "C11", run, "gen");
        let mut case;
        let mut long_hist = false;
        let after_huge = SYS_S0 + SYS_S1 + huge_runs(tier);
        if run >= after_huge && run < after_huge + replay_runs(tier) {
            // a compression layer whose COMPRESSED stream exceeds 2^32 bytes: three blocks of noise written by the
            // library, the second one then seen a thousand times through a generated source (blocks are compressed
            // independently: it is byte for byte what the writer would have produced for that plaintext)
            let k = run - after_huge;
            let cfg = ArcCfg { variant: "prod".into(), layers: L_COMP, level: (k % 2) as u32, recipients: 0, reader: 0, rng_seed: 0, key_seed: 5 };
            let block = consts_of("prod").block;
            let n = 2 * block as usize + rng.range(1, block - 1) as usize;
            let ops = vec![WOp::Add { name: Name::lit("noise"), data: Data::Rand { n, seed: rng.u64() }, src: Src::exact() }, WOp::Add { name: Name::lit("tail"), data: Data::Text { n: 1000, seed: 4 }, src: Src::exact() }, WOp::Finalize];
            let mut case = Case::new("C11", cfg, ops);
            let times = ((1u64 << 32) + (64 << 20)) / block + rng.below(60);
            case.params.insert("huge".into(), 1);
            case.params.insert("replay".into(), times as i64);
            case.params.insert("depth".into(), 1);
            let plain_len = stream_len(&case.ops) as u64 + (times - 1) * block;
            case.lops = gen_hist_huge(&mut rng, plain_len, 40, block);
            return case;
        }
        if run >= SYS_S0 + SYS_S1 && run < SYS_S0 + SYS_S1 + huge_runs(tier) {
            // one file of 2^32 + a few MiB zero bytes streamed through the compression layer (alone, or over encryption)
            let k = run - SYS_S0 - SYS_S1;
            let layers = if k % 2 == 0 { L_COMP } else { L_COMP | L_ENC };
            let cfg = ArcCfg { variant: "prodv".into(), layers, level: (k % 2) as u32, recipients: usize::from(layers & 1 != 0), reader: 0, rng_seed: run + 11, key_seed: 5 };
            let n = (1usize << 32) + rng.range(1, 9 << 20) as usize;
            // content with period 251 (prime: what lies 2^31 or 2^32 further is a different byte), or zeros now and then
            let data = if k % 4 == 3 { Data::Zeros { n } } else { Data::Period { n, p: 251 } };
            let ops = vec![WOp::Start { f: 0, name: Name::lit("zeros") }, WOp::Append { f: 0, data, src: Src { sched: Sched::Full, short_by: 0, extra: 0, stream: true } }, WOp::End { f: 0 }, WOp::Add { name: Name::lit("tail"), data: Data::Text { n: 1000, seed: 4 }, src: Src::exact() }, WOp::Finalize];
            let mut case = Case::new("C11", cfg, ops);
            case.params.insert("huge".into(), 1);
            case.params.insert("depth".into(), if layers & L_ENC != 0 { 2 } else { 1 });
            // the history is explicit from the start (the plaintext length is known from the stream-length model)
            let plain_len = stream_len(&case.ops) as u64;
            case.lops = gen_hist_huge(&mut rng, plain_len, 40, consts_of("prodv").block);
            return case;
        }
        if run < SYS_S0 + SYS_S1 {
            let (variant, layers, len) = if run < SYS_S0 { ("s0", (run % 4) as u8, (run / 4) as usize) } else { ("s1", if (run - SYS_S0) % 2 == 0 { 1u8 } else { 3u8 }, ((run - SYS_S0) / 2) as usize) };
            let cfg = ArcCfg { variant: variant.into(), layers, level: (run % 12) as u32, recipients: usize::from(layers & 1 != 0), reader: 0, rng_seed: run + 11, key_seed: 5 };
            let ops = vec![WOp::Add { name: Name::lit("a"), data: Data::Rand { n: len, seed: run }, src: Src::exact() }, WOp::Finalize];
            case = Case::new("C11", cfg, ops);
        } else {
            let variant = pick_variant(&mut rng, tier);
            let vc = consts_of(variant);
            let mut c = vc.model_consts();
            let big = vc.chunk > 1000;
            if big && rng.chance(2, 3) {
                c.block = 2 * c.chunk;
                c.repair_cache = 4 * c.chunk;
            }
            let cfg = gen_cfg(&mut rng, variant, vc.hooks);
            let o = GenOpts { max_files: 3, max_ops: 8, max_piece: 2 * c.block + 50, max_total: if big { 2 * c.block + 3 * c.chunk } else { 5 * c.block }, interleave: rng.chance(1, 2), flushes: false, special_names: false, finalize: true, piece_scheds: false };
            let mut ops = gen_ops(&mut rng, &c, &o);
            let mut cfg = cfg;
            if big && rng.chance(1, 2) {
                // layer plaintext length solved onto / next to a real chunk or block edge
                if cfg.comp() {
                    cfg.level = cfg.level.min(5);
                    align_stream(&mut ops, vc.block as usize, *rng.pick(&[0usize, 0, 1, vc.block as usize - 1]));
                } else if cfg.enc() {
                    align_stream(&mut ops, vc.chunk as usize, *rng.pick(&[0usize, 0, 1, 15, 16, 17, vc.chunk as usize - 1]));
                }
            }
            if !big && rng.chance(1, 40) {
                // scaled builds: hundreds of blocks / more than 65535 chunks under one layer stack, and a long history
                let n = if cfg.enc() && !cfg.comp() && rng.chance(1, 2) { 70_000 * vc.chunk as usize + rng.usize_below(100) } else { rng.range(260, 700) as usize * vc.block as usize + rng.usize_below(vc.block as usize) };
                ops = vec![WOp::Add { name: Name::lit("long"), data: Data::Rand { n, seed: rng.u64() }, src: Src::exact() }, WOp::Finalize];
                cfg.level = cfg.level.min(4);
                long_hist = true;
            }
            case = Case::new("C11", cfg, ops);
        }
        if long_hist {
            case.params.insert("hist_len".into(), 250);
        }
        let nl = case.cfg.enc() as usize + case.cfg.comp() as usize;
        case.params.insert("depth".into(), rng.range(0, nl as u64) as i64);
        case.params.insert("hist_seed".into(), (rng.u64() >> 1) as i64);
        // one run in three: the underlying source returns SHORT reads (1 byte at a time, or 1..max bytes per call)
        match rng.below(6) {
            0 => case.params.insert("src_short".into(), 1),
            1 => case.params.insert("src_short".into(), *rng.pick(&[2i64, 3, 7, 15, 16, 17, 100, 4096])),
            // ... or reports `Interrupted` now and then (the driver makes the call again)
            2 if rng.chance(1, 2) => case.params.insert("src_intr".into(), rng.range(3, 12) as i64),
            _ => None,
        };
        case
    }
    fn shrink(&self, case: &Case) -> Vec<Case> {
        if case.param("huge", 0) != 1 {
            return crate::shrink::generic(case);
        }
        // every evaluation streams 4 GiB: only the history is shortened (halves, then single steps)
        let base = case.clone();
        let mut out = Vec::new();
        let n = base.lops.len();
        if n > 1 {
            let mut c = base.clone();
            c.lops.truncate(n / 2);
            out.push(c);
            let mut c = base.clone();
            c.lops.drain(..n / 2);
            out.push(c);
        }
        if n <= 8 {
            for i in 0..n {
                let mut c = base.clone();
                c.lops.remove(i);
                out.push(c);
            }
        }
        out
    }
    fn exec(&self, case: &Case, ctx: &mut Ctx) -> Vec<Violation> {
        let mut v = Vec::new();
        let s = sut(&case.cfg.variant);
        let vc = s.consts();
        let (chunk, block) = (vc.chunk as usize, vc.block as usize);
        let sink = SimSink::new(&Sched::Full);
        let w = s.write(&case.cfg, &case.ops, sink.clone());
        if w.panic.is_some() || w.from_config_err.is_some() || w.results.iter().any(Result::is_err) {
            v.push(Violation::new("workload-write-failed", "write", format!("writing the workload failed: panic {:?}, from_config {:?}, first failed call {:?}", w.panic, w.from_config_err, w.results.iter().find(|r| r.is_err()))));
            return v;
        }
        let image = sink.data();
        let depth = case.param("depth", 0) as usize;
        let huge = case.param("huge", 0) == 1;
        let lay;
        let replay = case.param("replay", 0) as u64;
        let mut rcfg = ReadCfg::for_cfg(&case.cfg);
        let mut image = image;
        let (plain, top): (Plain, &str) = if replay > 1 {
            let l = match layout_of(&image, &case.cfg, chunk, block) {
                Ok(l) => l,
                Err(e) => {
                    v.push(Violation::new("model-cannot-decode", "decode", format!("format model rejects the archive: {e}")));
                    return v;
                }
            };
            let hlen = l.dec.header.len;
            let Some(cl) = l.dec.comp.as_ref().filter(|c| c.blocks.len() >= 3) else {
                ctx.probe("replay-run-with-fewer-than-3-blocks (run skipped)");
                return v;
            };
            let (off, sz, _) = cl.blocks[1];
            let mut sizes: Vec<u32> = cl.blocks.iter().map(|b| b.1 as u32).collect();
            for _ in 1..replay {
                sizes.insert(1, sz as u32);
            }
            // the sizes footer of the longer stream: count, compressed sizes, size of the last block, its own length
            let mut tail = Vec::with_capacity(16 + 4 * sizes.len());
            tail.extend_from_slice(&(sizes.len() as u64).to_le_bytes());
            for x in &sizes {
                tail.extend_from_slice(&x.to_le_bytes());
            }
            tail.extend_from_slice(&cl.last_block_size.to_le_bytes());
            tail.extend_from_slice(&((8 + 4 * sizes.len() + 4) as u32).to_le_bytes());
            image.truncate(hlen + cl.sizes_at);
            image.extend_from_slice(&tail);
            rcfg.replay = Some(((hlen + off) as u64, sz as u64, replay));
            crate::seams::fired("compressed_stream_beyond_2_pow_32");
            (Plain::Replay { stream: l.dec.stream.clone(), k: 1, times: replay, block: block as u64 }, "compress")
        } else if huge {
            // the format model decodes the first and the last two blocks only
            let decode = || -> Result<Plain<'static>, String> {
                let header = crate::refmla::parse_header(&image)?;
                let body = &image[header.len..];
                let comp: Vec<u8> = match &header.enc {
                    Some(e) => {
                        let key = crate::refmla::unwrap_key(e, &key_bytes(case.cfg.key_seed, case.cfg.reader)).ok_or("format model cannot unwrap the key")?;
                        let d = crate::refmla::decrypt_stream(&key, &e.nonce, body, chunk);
                        if d.verified_chunks != d.total_chunks {
                            return Err("format model: a chunk does not authenticate".into());
                        }
                        d.plain
                    }
                    None => body.to_vec(),
                };
                let cl = crate::refmla::comp_layout(&comp, block)?;
                let nb = cl.blocks.len();
                if nb < 4 {
                    return Err(format!("only {nb} blocks"));
                }
                let len = (nb as u64 - 1) * block as u64 + u64::from(cl.last_block_size);
                let head = crate::refmla::decompress_block(&comp, &cl, 0)?;
                let mut tail = crate::refmla::decompress_block(&comp, &cl, nb - 2)?;
                tail.extend(crate::refmla::decompress_block(&comp, &cl, nb - 1)?);
                // the streamed piece's data starts after FileStart (17 + 5 name bytes) and its content header (17)
                let mid = case.ops.iter().find_map(|o| if let WOp::Append { data: Data::Period { p, .. }, .. } = o { Some((17 + 5 + 17, *p as u64)) } else { None });
                Ok(Plain::Huge { len, head, tail, mid })
            };
            match decode() {
                Ok(p) => (p, if case.cfg.enc() { "compress-over-encrypt" } else { "compress" }),
                Err(e) => {
                    v.push(Violation::new("model-cannot-decode", "decode", format!("format model rejects the archive: {e}")));
                    return v;
                }
            }
        } else {
            lay = match layout_of(&image, &case.cfg, chunk, block) {
                Ok(l) => l,
                Err(e) => {
                    v.push(Violation::new("model-cannot-decode", "decode", format!("format model rejects the archive: {e}")));
                    return v;
                }
            };
            let hlen = lay.dec.header.len;
            // plaintext of the stack at this depth
            match (depth, case.cfg.enc(), case.cfg.comp()) {
                (0, _, _) => (Plain::Mem(&image[hlen..]), "raw"),
                (1, true, _) => (Plain::Mem(&lay.dec.enc_plain), "encrypt"),
                (1, false, true) => (Plain::Mem(&lay.dec.stream), "compress"),
                (2, true, true) => (Plain::Mem(&lay.dec.stream), "compress-over-encrypt"),
                _ => (Plain::Mem(&image[hlen..]), "raw"),
            }
        };
        let len = plain.len();
        let unit = if top == "raw" { 16 } else if top == "encrypt" { chunk as u64 } else { block as u64 };
        if huge {
            crate::seams::fired("plaintext_beyond_2_pow_32");
            if case.faults.is_empty() && len != stream_len(&case.ops) as u64 + replay.saturating_sub(1) * block as u64 {
                // harness self-check: the explicit history was generated for the modelled length
                ctx.probe("huge-stream-length-model-mismatch (run skipped)");
                return v;
            }
        }
        let lops = if !case.lops.is_empty() {
            case.lops.clone()
        } else {
            gen_hist(&mut Rng::new(case.param("hist_seed", 1) as u64), len, case.param("hist_len", 30) as usize, unit)
        };
        match case.param("src_short", 0) {
            0 => {}
            1 => rcfg.sched = Sched::One,
            m => rcfg.sched = Sched::Rand { seed: case.param("hist_seed", 1) as u64 ^ 0x5eed, max: m as u64 },
        }
        let intr = case.param("src_intr", 0);
        if intr > 0 {
            rcfg.sched = Sched::Intr { seed: case.param("hist_seed", 1) as u64 ^ 0x1e77, max: 1 << 20, intr_den: intr as u64 };
            crate::seams::set_source_interrupts(true);
        }
        let out = s.layers(Rc::new(image.clone()), depth, &rcfg, len, &lops);
        crate::seams::set_source_interrupts(false);
        let cls = top.to_string();
        ctx.eval();
        if let Err(e) = &out.build {
            v.push(Violation::new("layer-build-failed", cls.clone(), format!("building the {top} reader over a valid archive (layer plaintext {len} bytes) failed: {e}")));
            return v;
        }
        // cursor model
        let mut pos: u64 = 0;
        let mut kinds = std::collections::BTreeSet::new();
        for (i, (op, res)) in lops.iter().zip(out.results.iter()).enumerate() {
            ctx.eval();
            let what = format!("op #{i} {op:?} on the {top} layer (plaintext {len} bytes = {}*{}+{}), position before {pos}", len / unit.max(1), unit, len % unit.max(1));
            match (op, res) {
                (_, LRes::Err(e)) => {
                    v.push(Violation::new("layer-op-error", format!("{cls}|{}", opkind(op)), format!("{what}: error {e}")));
                    break;
                }
                (LOp::SeekStart { p }, LRes::Pos(q)) => {
                    kinds.insert("start");
                    pos = *p;
                    if q != p {
                        v.push(Violation::new("layer-wrong-position", format!("{cls}|start"), format!("{what}: returned {q}")));
                        break;
                    }
                }
                (LOp::SeekCurTo { p }, LRes::Pos(q)) => {
                    kinds.insert("cur");
                    let d = *p as i64 - pos as i64;
                    pos = *p;
                    if q != p {
                        v.push(Violation::new("layer-wrong-position", format!("{cls}|current"), format!("{what}: seek(Current({d})) returned {q}, a cursor gives {p}")));
                        break;
                    }
                }
                (LOp::SeekCur0, LRes::Pos(q)) => {
                    kinds.insert("cur0");
                    if *q != pos {
                        v.push(Violation::new("layer-wrong-position", format!("{cls}|current"), format!("{what}: seek(Current(0)) returned {q}, a cursor gives {pos}")));
                        break;
                    }
                }
                (LOp::SeekEndTo { p }, LRes::Pos(q)) => {
                    kinds.insert("end");
                    pos = *p;
                    if q != p {
                        v.push(Violation::new("layer-wrong-position", format!("{cls}|end"), format!("{what}: seek(End({})) returned {q}, a cursor gives {p}", *p as i64 - len as i64)));
                        break;
                    }
                }
                (LOp::Pos, LRes::Pos(q)) => {
                    kinds.insert("pos");
                    if *q != pos {
                        v.push(Violation::new("layer-wrong-position", format!("{cls}|stream_position"), format!("{what}: stream_position {q}, a cursor gives {pos}")));
                        break;
                    }
                }
                (LOp::Read { n }, LRes::Bytes(b)) => {
                    kinds.insert("read");
                    let want = plain.at(pos, *n);
                    let want_max = want.len();
                    if b.len() > want_max || want[..b.len().min(want_max)] != b[..b.len().min(want_max)] {
                        v.push(Violation::new("layer-wrong-bytes", cls.clone(), format!("{what}: {} bytes returned, they differ from the plaintext at that position (or exceed it)", b.len())));
                        break;
                    }
                    if b.is_empty() && want_max > 0 {
                        v.push(Violation::new("layer-early-eof", cls.clone(), format!("{what}: read of {n} returned 0 bytes although {} remain", plain.len() - pos)));
                        break;
                    }
                    pos += b.len() as u64;
                }
                (o, r) => {
                    v.push(Violation::new("layer-op-error", cls.clone(), format!("{what}: unexpected result {r:?} for {o:?}")));
                    break;
                }
            }
        }
        if let Some(p) = &out.panic {
            v.push(Violation::new("layer-panic", format!("{cls}|{}", super::repair::panic_class(p)), format!("{top} layer, plaintext {len} bytes, history {:?}: panic {p}", lops.iter().take(out.results.len() + 1).collect::<Vec<_>>())));
        }
        ctx.sig(format!("{}|{}|{top}|c{}|b{}|{}", case.cfg.variant, case.cfg.layer_name(), align_class(len as usize, chunk), align_class(len as usize, block), kinds.into_iter().collect::<Vec<_>>().join("+")));
        v
    }
}

fn opkind(op: &LOp) -> &'static str {
    match op {
        LOp::SeekStart { .. } => "start",
        LOp::SeekCurTo { .. } | LOp::SeekCur0 => "current",
        LOp::SeekEndTo { .. } => "end",
        LOp::Pos => "stream_position",
        LOp::Read { .. } => "read",
    }
}
