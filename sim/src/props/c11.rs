//! C11 Each layer reader behaves like a plain seekable byte stream.
use super::common::*;
use crate::model::*;
use crate::rng::Rng;
use crate::runner::{Case, Ctx, Prop, Tier, Violation};
use crate::seams::{Sched, SimSink};
use crate::sut::{consts_of, sut, LOp, LRes, ReadCfg};
use std::rc::Rc;

pub struct C11;

/// systematic part: content length sweep on s0 (E, C, CE, none) then s1
const SYS_S0: u64 = 4 * 300;
const SYS_S1: u64 = 2 * 300;

fn gen_hist(rng: &mut Rng, len: u64, nops: usize, unit: u64) -> Vec<LOp> {
    let mut ops = Vec::new();
    let target = |rng: &mut Rng| -> u64 {
        match rng.below(8) {
            0 => 0,
            1 => len,
            2 => len.saturating_sub(rng.below(18)),
            3 | 4 => {
                // around a unit boundary
                let k = rng.below(len / unit.max(1) + 2);
                (k * unit + rng.below(5)).saturating_sub(2).min(len)
            }
            _ => rng.range(0, len),
        }
    };
    for _ in 0..nops {
        match rng.below(10) {
            0 | 1 => ops.push(LOp::SeekStart { p: target(rng) }),
            2 => ops.push(LOp::SeekCurTo { p: target(rng) }),
            3 => ops.push(LOp::SeekEndTo { p: target(rng) }),
            4 => ops.push(LOp::Pos),
            5 => ops.push(LOp::SeekCur0),
            _ => {
                let n = match rng.below(6) {
                    0 => 0,
                    1 => 1,
                    2 => unit as usize,
                    3 => unit as usize + 1,
                    4 => rng.range(0, 3 * unit) as usize,
                    _ => rng.range(1, 40) as usize,
                };
                ops.push(LOp::Read { n });
            }
        }
    }
    ops
}

impl Prop for C11 {
    fn id(&self) -> &'static str {
        "C11"
    }
    fn level(&self) -> &'static str {
        "exploration"
    }
    fn rule(&self) -> String {
        "run = a finalized archive written by the library, whose layer plaintexts are obtained from the independent format model (decrypt / decompress by refmla); a layer reader stack is built exactly as `mlar info` builds it (header parsed, raw layer pinned after the header, then 0, 1 or 2 of the enabled layers) over the simulated source, and a seeded history of 30 operations {seek from start / current / end to any target in [0, len] (biased to 0, len, len-k, chunk and block edges +-2), stream_position, read of 0/1/unit/unit+1/random bytes} is played against a std::io::Cursor over the same plaintext: identical positions, identical bytes, a read returns >= 1 byte unless asked for 0 or at the end. The first 1800 runs sweep the content length 0..299 on s0 (all four layer sets) and s1 (E, CE) so that every residue of the plaintext length modulo CHUNK (and lengths below one tag, exact multiples) and modulo BLOCK occurs. distinct_nontrivial = distinct (variant, layers, depth, length class vs CHUNK, vs BLOCK, op kinds seen) signatures.".into()
    }
    fn assumptions(&self) -> Vec<String> {
        vec!["seek targets are confined to [0, len] as the property states; a read may return fewer bytes than asked".into()]
    }
    fn runs(&self, tier: Tier) -> u64 {
        match tier {
            Tier::Quick => SYS_S0 + SYS_S1 + 6000,
            Tier::Thorough => SYS_S0 + SYS_S1 + 200_000,
        }
    }
    fn make(&self, seed: u64, run: u64, tier: Tier) -> Case {
        let mut rng = Rng::derive(seed, "C11", run, "gen");
        let mut case;
        if run < SYS_S0 + SYS_S1 {
            let (variant, layers, len) = if run < SYS_S0 { ("s0", (run % 4) as u8, (run / 4) as usize) } else { ("s1", if (run - SYS_S0) % 2 == 0 { 1u8 } else { 3u8 }, ((run - SYS_S0) / 2) as usize) };
            let cfg = ArcCfg { variant: variant.into(), layers, level: (run % 12) as u32, recipients: usize::from(layers & 1 != 0), reader: 0, rng_seed: run + 11, key_seed: 5 };
            let ops = vec![WOp::Add { name: Name::lit("a"), data: Data::Rand { n: len, seed: run }, src: Src::exact() }, WOp::Finalize];
            case = Case::new("C11", cfg, ops);
        } else {
            let variant = pick_variant(&mut rng, tier);
            let vc = consts_of(variant);
            let mut c = vc.model_consts();
            let big = vc.chunk > 1000;
            if big && rng.chance(2, 3) {
                c.block = 2 * c.chunk;
                c.repair_cache = 4 * c.chunk;
            }
            let cfg = gen_cfg(&mut rng, variant, vc.hooks);
            let o = GenOpts { max_files: 3, max_ops: 8, max_piece: 2 * c.block + 50, max_total: if big { 2 * c.block + 3 * c.chunk } else { 5 * c.block }, interleave: rng.chance(1, 2), flushes: false, special_names: false, finalize: true, piece_scheds: false };
            let mut ops = gen_ops(&mut rng, &c, &o);
            let mut cfg = cfg;
            if big && rng.chance(1, 2) {
                // layer plaintext length solved onto / next to a real chunk or block edge
                if cfg.comp() {
                    cfg.level = cfg.level.min(5);
                    align_stream(&mut ops, vc.block as usize, *rng.pick(&[0usize, 0, 1, vc.block as usize - 1]));
                } else if cfg.enc() {
                    align_stream(&mut ops, vc.chunk as usize, *rng.pick(&[0usize, 0, 1, 15, 16, 17, vc.chunk as usize - 1]));
                }
            }
            case = Case::new("C11", cfg, ops);
        }
        let nl = case.cfg.enc() as usize + case.cfg.comp() as usize;
        case.params.insert("depth".into(), rng.range(0, nl as u64) as i64);
        case.params.insert("hist_seed".into(), (rng.u64() >> 1) as i64);
        case
    }
    fn exec(&self, case: &Case, ctx: &mut Ctx) -> Vec<Violation> {
        let mut v = Vec::new();
        let s = sut(&case.cfg.variant);
        let vc = s.consts();
        let (chunk, block) = (vc.chunk as usize, vc.block as usize);
        let sink = SimSink::new(&Sched::Full);
        let w = s.write(&case.cfg, &case.ops, sink.clone());
        if w.panic.is_some() || w.from_config_err.is_some() || w.results.iter().any(Result::is_err) {
            v.push(Violation::new("workload-write-failed", "write", format!("{:?} {:?}", w.panic, w.results.iter().find(|r| r.is_err()))));
            return v;
        }
        let image = sink.data();
        let lay = match layout_of(&image, &case.cfg, chunk, block) {
            Ok(l) => l,
            Err(e) => {
                v.push(Violation::new("model-cannot-decode", "decode", format!("format model rejects the archive: {e}")));
                return v;
            }
        };
        let depth = case.param("depth", 0) as usize;
        let hlen = lay.dec.header.len;
        // plaintext of the stack at this depth
        let (plain, top): (&[u8], &str) = match (depth, case.cfg.enc(), case.cfg.comp()) {
            (0, _, _) => (&image[hlen..], "raw"),
            (1, true, _) => (&lay.dec.enc_plain, "encrypt"),
            (1, false, true) => (&lay.dec.stream, "compress"),
            (2, true, true) => (&lay.dec.stream, "compress-over-encrypt"),
            _ => (&image[hlen..], "raw"),
        };
        let len = plain.len() as u64;
        let unit = if top == "raw" { 16 } else if top == "encrypt" { chunk as u64 } else { block as u64 };
        let lops = if case.lops.is_empty() { gen_hist(&mut Rng::new(case.param("hist_seed", 1) as u64), len, 30, unit) } else { case.lops.clone() };
        let rcfg = ReadCfg::for_cfg(&case.cfg);
        let out = s.layers(Rc::new(image.clone()), depth, &rcfg, len, &lops);
        let cls = top.to_string();
        ctx.eval();
        if let Err(e) = &out.build {
            v.push(Violation::new("layer-build-failed", cls.clone(), format!("building the {top} reader over a valid archive (layer plaintext {len} bytes) failed: {e}")));
            return v;
        }
        // cursor model
        let mut pos: u64 = 0;
        let mut kinds = std::collections::BTreeSet::new();
        for (i, (op, res)) in lops.iter().zip(out.results.iter()).enumerate() {
            ctx.eval();
            let what = format!("op #{i} {op:?} on the {top} layer (plaintext {len} bytes = {}*{}+{}), position before {pos}", len / unit.max(1), unit, len % unit.max(1));
            match (op, res) {
                (_, LRes::Err(e)) => {
                    v.push(Violation::new("layer-op-error", format!("{cls}|{}", opkind(op)), format!("{what}: error {e}")));
                    break;
                }
                (LOp::SeekStart { p }, LRes::Pos(q)) => {
                    kinds.insert("start");
                    pos = *p;
                    if q != p {
                        v.push(Violation::new("layer-wrong-position", format!("{cls}|start"), format!("{what}: returned {q}")));
                        break;
                    }
                }
                (LOp::SeekCurTo { p }, LRes::Pos(q)) => {
                    kinds.insert("cur");
                    let d = *p as i64 - pos as i64;
                    pos = *p;
                    if q != p {
                        v.push(Violation::new("layer-wrong-position", format!("{cls}|current"), format!("{what}: seek(Current({d})) returned {q}, a cursor gives {p}")));
                        break;
                    }
                }
                (LOp::SeekCur0, LRes::Pos(q)) => {
                    kinds.insert("cur0");
                    if *q != pos {
                        v.push(Violation::new("layer-wrong-position", format!("{cls}|current"), format!("{what}: seek(Current(0)) returned {q}, a cursor gives {pos}")));
                        break;
                    }
                }
                (LOp::SeekEndTo { p }, LRes::Pos(q)) => {
                    kinds.insert("end");
                    pos = *p;
                    if q != p {
                        v.push(Violation::new("layer-wrong-position", format!("{cls}|end"), format!("{what}: seek(End({})) returned {q}, a cursor gives {p}", *p as i64 - len as i64)));
                        break;
                    }
                }
                (LOp::Pos, LRes::Pos(q)) => {
                    kinds.insert("pos");
                    if *q != pos {
                        v.push(Violation::new("layer-wrong-position", format!("{cls}|stream_position"), format!("{what}: stream_position {q}, a cursor gives {pos}")));
                        break;
                    }
                }
                (LOp::Read { n }, LRes::Bytes(b)) => {
                    kinds.insert("read");
                    let p = pos as usize;
                    let want_max = (*n).min(plain.len().saturating_sub(p));
                    if b.len() > want_max || plain[p.min(plain.len())..p.min(plain.len()) + b.len().min(want_max)] != b[..b.len().min(want_max)] {
                        v.push(Violation::new("layer-wrong-bytes", cls.clone(), format!("{what}: {} bytes returned, they differ from the plaintext at that position (or exceed it)", b.len())));
                        break;
                    }
                    if b.is_empty() && want_max > 0 {
                        v.push(Violation::new("layer-early-eof", cls.clone(), format!("{what}: read of {n} returned 0 bytes although {} remain", plain.len() - p)));
                        break;
                    }
                    pos += b.len() as u64;
                }
                (o, r) => {
                    v.push(Violation::new("layer-op-error", cls.clone(), format!("{what}: unexpected result {r:?} for {o:?}")));
                    break;
                }
            }
        }
        if let Some(p) = &out.panic {
            v.push(Violation::new("layer-panic", format!("{cls}|{}", super::repair::panic_class(p)), format!("{top} layer, plaintext {len} bytes, history {:?}: panic {p}", lops.iter().take(out.results.len() + 1).collect::<Vec<_>>())));
        }
        ctx.sig(format!("{}|{}|{top}|c{}|b{}|{}", case.cfg.variant, case.cfg.layer_name(), align_class(len as usize, chunk), align_class(len as usize, block), kinds.into_iter().collect::<Vec<_>>().join("+")));
        v
    }
}

fn opkind(op: &LOp) -> &'static str {
    match op {
        LOp::SeekStart { .. } => "start",
        LOp::SeekCurTo { .. } | LOp::SeekCur0 => "current",
        LOp::SeekEndTo { .. } => "end",
        LOp::Pos => "stream_position",
        LOp::Read { .. } => "read",
    }
}
