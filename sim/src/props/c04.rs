//! C04 Default repair only outputs authenticated, contiguous data.
use super::common::*;
use crate::model::*;
use crate::refmla;
use crate::rng::Rng;
use crate::runner::{Case, Ctx, Fault, Prop, Tier, Violation};
use crate::seams::{self, Sched, SimSink};
use crate::sut::{consts_of, sut, ReadCfg};
use std::collections::BTreeMap;
use std::rc::Rc;

pub struct C04;

fn faults_for(case: &Case, image: &[u8], hlen: usize, chunk: usize, rng: &mut Rng) -> Vec<Fault> {
    if !case.faults.is_empty() {
        return case.faults.clone();
    }
    let ranges = refmla::chunk_ranges(image.len() - hlen, chunk);
    let mut v = Vec::new();
    let cap = case.param("max_chunks", 24) as usize;
    let sparse = case.param("sparse", 0) == 1;
    let idx: Vec<usize> = if sparse {
        // long archives: a few chunk indices spread over the stream, four faults each
        let n = ranges.len();
        let mut v: Vec<usize> = vec![1, 2, rng.usize_below(n), rng.usize_below(n), rng.usize_below(n), n.saturating_sub(2)];
        v.retain(|i| *i < n);
        v.sort();
        v.dedup();
        v
    } else if ranges.len() <= cap {
        (0..ranges.len()).collect()
    } else {
        (0..cap / 2).chain(ranges.len() - cap / 2..ranges.len()).collect()
    };
    for &i in &idx {
        let r = &ranges[i];
        let base = hlen + r.start;
        if sparse {
            if r.payload > 0 {
                v.push(Fault::Flip { byte: base + rng.usize_below(r.payload), bit: rng.below(8) as u8 });
                v.push(Fault::Cut { n: base + rng.usize_below(r.payload) });
            }
            v.push(Fault::Flip { byte: base + r.payload + rng.usize_below(r.tag.max(1)), bit: rng.below(8) as u8 });
            v.push(Fault::ChunkDel { i });
            continue;
        }
        if r.payload > 0 {
            // payload: first, last and a seeded byte
            for byte in [base, base + r.payload - 1, base + rng.usize_below(r.payload)] {
                v.push(Fault::Flip { byte, bit: rng.below(8) as u8 });
            }
            v.push(Fault::Set { byte: base + rng.usize_below(r.payload), val: *rng.pick(&[0u8, 0xFF]) });
            // truncation inside the chunk
            v.push(Fault::Cut { n: base + rng.usize_below(r.payload) });
            v.push(Fault::Cut { n: base + r.payload });
        }
        // tag: first, last, seeded
        for byte in [base + r.payload, base + r.payload + r.tag - 1, base + r.payload + rng.usize_below(r.tag.max(1))] {
            v.push(Fault::Flip { byte, bit: rng.below(8) as u8 });
        }
        v.push(Fault::Cut { n: base + r.payload + rng.usize_below(r.tag.max(1)) });
        v.push(Fault::ChunkDup { i });
        v.push(Fault::ChunkDel { i });
        v.push(Fault::Splice { i, j: i });
        if i + 1 < ranges.len() {
            v.push(Fault::ChunkSwap { i, j: i + 1 });
            v.push(Fault::ChunkMove { i, j: i + 1 });
        }
        if i >= 2 {
            v.push(Fault::ChunkMove { i, j: rng.usize_below(i) });
        }
    }
    if case.param("two_faults", 0) == 1 && ranges.len() >= 3 {
        // two damaged chunks i < j in one image (whatever the first failure sets must still hold when the second is met)
        for _ in 0..12 {
            let i = rng.usize_below(ranges.len() - 1);
            let j = i + 1 + rng.usize_below(ranges.len() - 1 - i);
            let (a, b) = (&ranges[i], &ranges[j]);
            let fa = if a.payload > 0 && rng.chance(1, 2) { Fault::Flip { byte: hlen + a.start + rng.usize_below(a.payload), bit: rng.below(8) as u8 } } else { Fault::Flip { byte: hlen + a.start + a.payload + rng.usize_below(a.tag.max(1)), bit: rng.below(8) as u8 } };
            let fb = if b.payload > 0 && rng.chance(1, 2) { Fault::Flip { byte: hlen + b.start + rng.usize_below(b.payload), bit: rng.below(8) as u8 } } else { Fault::Flip { byte: hlen + b.start + b.payload + rng.usize_below(b.tag.max(1)), bit: rng.below(8) as u8 } };
            v.push(Fault::Multi { faults: vec![fa, fb] });
        }
    }
    v
}

fn describe(m: &BTreeMap<String, Vec<u8>>) -> String {
    format!("{:?}", m.iter().map(|(k, b)| (k.chars().take(10).collect::<String>(), b.len())).collect::<Vec<_>>())
}

impl Prop for C04 {
    fn id(&self) -> &'static str {
        "C04"
    }
    fn level(&self) -> &'static str {
        "fault_enumeration"
    }
    fn rule(&self) -> String {
        "run = seeded encrypted archive (E or C+E) with >= 3 encryption chunks (the first 6 runs - thorough: 60 -: production constants, encryption only, one content block of 6..10 MiB, i.e. 48..80 chunks, faults at six chunk indices spread over the stream); on encrypt-only runs the first file's content is the adversarial block-lookalike class: a well-formed FileStart(\"intruder\")/content/EndOfFile(correct hash)/EndOfArchiveData sequence planted so that it begins exactly at chunk boundaries. Stored-byte faults for EVERY chunk index i (first/last/seeded byte of the payload and of the tag flipped or substituted, truncation inside the payload, at the tag start and inside the tag, chunk duplicated, deleted, swapped with or replaced by a neighbour or an earlier chunk, replaced by the same-index chunk of a second archive with its own key). One run in three damages TWO chunks i < j of one image as well; one scaled run in four repairs through a source that returns short reads - half of those also report ErrorKind::Interrupted now and then, in which case only the safety clauses (names, prefix of the original, nothing beyond the verified chunks) are judged -; one in three has 2-4 recipients. Each altered image is repaired in authenticated (default) and unauthenticated mode. Oracle: authenticated result has only original names, every file is a prefix of the original, and holds no more than what the chunks verified contiguously from the start carry - computed (a) by the independent format model from the verified plaintext prefix (encrypt-only) and (b) metamorphically by repairing the image cut at the start of the first failing chunk; the authenticated result is a per-file prefix of the unauthenticated one. evaluations = altered images judged; distinct_nontrivial = distinct (variant, layers, fault kind, first failing chunk class, payload/tag, lookalike?, outcome) signatures. One run in four also repairs the undamaged image and the first two altered ones through a source that fails ONCE (a transient error, not `Interrupted`) at 20 sampled read calls; one run in eight is an error sweep (compression over encryption, short-read source, every read call up to 600 failing once in turn): whatever the repair then writes must be prefixes of the original files (classes source-error|*; an image whose first chunk fails keeps the class of the known finding).".into()
    }
    fn assumptions(&self) -> Vec<String> {
        vec![
            "the attacker does not hold the archive key".into(),
            "the first failing chunk is determined by the independent model (AES-GCM tag check per chunk with its index in the nonce)".into(),
        ]
    }
    fn runs(&self, tier: Tier) -> u64 {
        match tier {
            Tier::Quick => 900,
            Tier::Thorough => 24_000,
        }
    }
    fn make(&self, seed: u64, run: u64, tier: Tier) -> Case {
        let mut rng = Rng::derive(seed, "C04", run, "gen");
        let long_runs = match tier {
            Tier::Quick => 6,
            Tier::Thorough => 60,
        };
        if run < long_runs {
            // production constants, encryption only, ONE content block of 6..10 MiB (48..80 chunks) plus a small file:
            // the repair then reads with its full 8 MiB buffer across dozens of chunk edges
            let variant = if tier == Tier::Thorough && run % 3 == 2 { "prod" } else { "prodv" };
            let vc = consts_of(variant);
            let mut cfg = gen_cfg(&mut rng, variant, vc.hooks);
            cfg.layers = L_ENC;
            cfg.recipients = 1;
            cfg.reader = 0;
            let n = rng.range(6 << 20, 10 << 20) as usize;
            let ops = vec![WOp::Add { name: Name::lit("long"), data: Data::Rand { n, seed: rng.u64() }, src: Src::exact() }, WOp::Add { name: Name::lit("after"), data: Data::Text { n: 3000, seed: 5 }, src: Src::exact() }, WOp::Finalize];
            let mut case = Case::new("C04", cfg, ops);
            case.params.insert("fault_seed".into(), (rng.u64() >> 1) as i64);
            case.params.insert("lookalike".into(), 0);
            case.params.insert("explicit_auth".into(), i64::from(rng.chance(1, 2)));
            case.params.insert("sparse".into(), 1);
            return case;
        }
        let x = rng.below(100);
        let variant = match tier {
            Tier::Quick => match x {
                0..=54 => "s0",
                55..=96 => "s1",
                _ => "prodv",
            },
            Tier::Thorough => match x {
                0..=49 => "s0",
                50..=89 => "s1",
                90..=97 => "prodv",
                _ => "prod",
            },
        };
        let vc = consts_of(variant);
        let mut c = vc.model_consts();
        let big = vc.chunk > 1000;
        if big {
            c.block = 2 * c.chunk;
            c.repair_cache = 4 * c.chunk;
        }
        let mut cfg = gen_cfg(&mut rng, variant, vc.hooks);
        cfg.layers |= L_ENC;
        if rng.chance(2, 3) {
            cfg.layers &= !L_COMP;
        }
        // one run in eight is aimed at ONE transient source error under compression over encryption, read in short
        // pieces: every read call in turn fails once (the decompressor of the repair path may swallow an error of
        // the layer below when it still holds input, and ask again)
        let err_sweep = !big && run % 8 == 5;
        if err_sweep {
            cfg.layers |= L_COMP;
        }
        if cfg.recipients == 0 {
            cfg.recipients = 1;
            cfg.reader = 0;
        }
        let chunk = c.chunk;
        let mut ops = Vec::new();
        let lookalike = !cfg.comp() && rng.chance(3, 4);
        let look_len = lookalike_blocks().len();
        let period = chunk * look_len.div_ceil(chunk);
        let nchunks = rng.range(3, if big { 4 } else { 9 }) as usize;
        if lookalike {
            // file stream: FileStart (17 + 2) + content header (17) = 36 bytes before the data
            let first = (chunk - 36 % chunk) % chunk;
            let n = nchunks * chunk - 36 + rng.usize_below(chunk);
            ops.push(WOp::Add { name: Name::lit("f0"), data: Data::Look { n, first, period, seed: rng.u64() }, src: Src::exact() });
            if rng.chance(1, 2) {
                let n1 = rng.usize_below(2 * chunk);
                ops.push(WOp::Add { name: Name::lit("f1"), data: Data::make(&mut rng, n1), src: Src::exact() });
            }
            ops.push(WOp::Finalize);
        } else {
            let total = nchunks * chunk * if cfg.comp() { 3 } else { 1 };
            let o = GenOpts { max_files: 3, max_ops: 10, max_piece: total, max_total: total, interleave: rng.chance(1, 2), flushes: false, special_names: false, finalize: true, piece_scheds: false };
            ops = gen_ops(&mut rng, &c, &o);
            // incompressible filler first so that the stream really spans several chunks
            let fill = Data::Rand { n: nchunks * chunk, seed: rng.u64() };
            ops.insert(0, WOp::Add { name: Name::lit("filler"), data: fill, src: Src::exact() });
        }
        if rng.chance(1, 3) {
            cfg.recipients = rng.range(2, 4) as usize;
            cfg.reader = rng.usize_below(cfg.recipients);
        }
        let mut case = Case::new("C04", cfg, ops);
        if !big && rng.chance(1, 4) {
            // the damaged image is repaired through a source that returns short reads (a chunk's payload and its tag may
            // arrive in different reads, a read may end inside the tag)
            let mut r = ReadCfg::for_cfg(&case.cfg);
            r.sched = Sched::make(&mut rng, false);
            if rng.chance(1, 2) {
                // ... and that reports ErrorKind::Interrupted now and then (a legal outcome of Read::read): repair may then
                // stop early, so only the safety clauses are judged on these runs
                r.sched = Sched::Intr { seed: rng.u64() | 1, max: *rng.pick(&[1u64, 7, 64, 1 << 20]), intr_den: *rng.pick(&[3u64, 10, 40]) };
                case.params.insert("src_interrupts".into(), 1);
            }
            case.rcfg = Some(r);
            case.params.insert("max_chunks".into(), 6);
        }
        case.params.insert("two_faults".into(), i64::from(rng.chance(1, 3)));
        case.params.insert("fault_seed".into(), (rng.u64() >> 1) as i64);
        case.params.insert("lookalike".into(), i64::from(lookalike));
        case.params.insert("explicit_auth".into(), i64::from(rng.chance(1, 2)));
        case.params.insert("src_errors".into(), i64::from(!big && run % 4 == 1));
        if err_sweep {
            let mut r = ReadCfg::for_cfg(&case.cfg);
            r.sched = Sched::Rand { seed: rng.u64() | 1, max: *rng.pick(&[5u64, 16, 24, 40]) };
            case.rcfg = Some(r);
            case.params.remove("src_interrupts");
            case.params.insert("src_errors".into(), 2);
            case.params.insert("max_chunks".into(), 6);
        }
        if big {
            case.params.insert("max_chunks".into(), 4);
        }
        case
    }
    fn exec(&self, case: &Case, ctx: &mut Ctx) -> Vec<Violation> {
        let mut v = Vec::new();
        let s = sut(&case.cfg.variant);
        let vc = s.consts();
        let chunk = vc.chunk as usize;
        let sink = SimSink::new(&Sched::Full);
        let w = s.write(&case.cfg, &case.ops, sink.clone());
        if w.panic.is_some() || w.from_config_err.is_some() || w.results.iter().any(Result::is_err) {
            v.push(Violation::new("workload-write-failed", "write", format!("writing the workload failed: panic {:?}, from_config {:?}, first failed call {:?}", w.panic, w.from_config_err, w.results.iter().find(|r| r.is_err()))));
            return v;
        }
        let image = sink.data();
        let Some((key, nonce)) = w.enc_params else {
            return v;
        };
        let mut cfg2 = case.cfg.clone();
        cfg2.rng_seed = case.cfg.rng_seed.wrapping_mul(5).wrapping_add(0x7777_1231) | 1;
        let sink2 = SimSink::new(&Sched::Full);
        let _ = s.write(&cfg2, &case.ops, sink2.clone());
        let other = sink2.data();
        let model = model_of(&case.ops);
        let hlen = header_len(&case.cfg);
        let orig = refmla::decrypt_stream(&key, &nonce, &image[hlen..], chunk);
        let mut rcfg = case.rcfg.clone().unwrap_or_else(|| ReadCfg::for_cfg(&case.cfg));
        // the default mode is reached both ways: untouched configuration (as `mlar repair`) or explicit setter
        rcfg.explicit_auth_mode = case.param("explicit_auth", 0) == 1;
        let ocfg = ArcCfg { variant: case.cfg.variant.clone(), layers: 0, level: 0, recipients: 0, reader: 0, rng_seed: 0, key_seed: 0 };
        let plain = ReadCfg { keys: vec![], sched: Sched::Full, budget: u64::MAX / 2, error_at_read: None, spill_path: None, explicit_auth_mode: false, replay: None };
        let mut frng = Rng::new(case.param("fault_seed", 1) as u64);
        let faults = faults_for(case, &image, hlen, chunk, &mut frng);
        let look = case.param("lookalike", 0) == 1;
        let repair_files = |img: &[u8], auth: bool| -> Result<(BTreeMap<String, Vec<u8>>, String), String> {
            let out = s.repair(Rc::new(img.to_vec()), &rcfg, auth, &ocfg, &Sched::Full);
            if let Some(p) = out.panic {
                return Err(format!("panic {p}"));
            }
            out.init?;
            let st = out.convert.ok_or("no convert")??;
            let files = read_all(s, &Rc::new(out.out_image), &plain)?;
            Ok((files, st.stop))
        };
        let interrupts = case.param("src_interrupts", 0) == 1;
        struct Reset;
        impl Drop for Reset {
            fn drop(&mut self) {
                seams::set_source_interrupts(false);
            }
        }
        let _reset = Reset;
        seams::set_source_interrupts(interrupts);
        for f in &faults {
            let altered = apply_fault(&image, f, hlen, chunk, Some(&other));
            if altered == image || altered.len() < hlen {
                continue;
            }
            seams::fired(fault_kind(f));
            ctx.eval();
            // which chunks verify contiguously from the start (independent model)
            let d = refmla::decrypt_stream(&key, &nonce, &altered[hlen..], chunk);
            let bad = d.verified_chunks; // index of the first failing chunk (== total if none)
            let all_ok = bad == d.total_chunks;
            let badcls = if all_ok { "none".to_string() } else if bad == 0 { "first-bad-chunk=0".to_string() } else { "first-bad-chunk>0".to_string() };
            let auth = match repair_files(&altered, true) {
                Ok(a) => a,
                Err(e) => {
                    ctx.probe("auth-repair-failed (C02/C08 clauses)");
                    ctx.sig(format!("{}|{}|{}|{}|err", case.cfg.variant, case.cfg.layer_name(), fault_kind(f), badcls));
                    let _ = e;
                    continue;
                }
            };
            // names / prefix
            for (name, bytes) in &auth.0 {
                let nm: String = name.chars().take(16).collect();
                match model.files.get(name) {
                    None => v.push(Violation::new("auth-foreign-name", badcls.clone(), format!("{f:?}: authenticated repair produced file {nm:?} ({} bytes) which is not in the original archive (first failing chunk {bad} of {})", bytes.len(), d.total_chunks)).with_fault(f.clone())),
                    Some(o) => {
                        if !o.starts_with(bytes) {
                            v.push(Violation::new("auth-not-prefix", badcls.clone(), format!("{f:?}: file {nm:?}: {} recovered bytes are not a prefix of the original (first difference at {}), first failing chunk {bad}", bytes.len(), first_diff(bytes, o))).with_fault(f.clone()));
                        }
                    }
                }
            }
            // (a) bound from the verified plaintext prefix, encrypt-only
            if !case.cfg.comp() {
                let prefix = &orig.plain[..d.verified_len.min(orig.plain.len())];
                let (blocks, _) = refmla::parse_blocks(prefix);
                let truth = refmla::files_from_blocks(prefix, &blocks);
                for (name, bytes) in &auth.0 {
                    let t = truth.get(name).map(|x| x.bytes.len()).unwrap_or(0);
                    if bytes.len() > t {
                        v.push(Violation::new("unverified-data-used", badcls.clone(), format!("{f:?}: file {:?}: chunks 0..{bad} verify and carry {t} bytes of it, authenticated repair output {} bytes", name.chars().take(16).collect::<String>(), bytes.len())).with_fault(f.clone()));
                    }
                }
            }
            // (b) metamorphic: nothing beyond the repair of the image cut at the first failing chunk
            if !all_ok && !interrupts {
                let cut_at = hlen + bad * (chunk + 16);
                if let Ok(cutrep) = repair_files(&altered[..cut_at.min(altered.len())], true) {
                    for (name, bytes) in &auth.0 {
                        let t = cutrep.0.get(name).map(Vec::len).unwrap_or(0);
                        if bytes.len() > t {
                            v.push(Violation::new("more-than-cut-before-failure", badcls.clone(), format!("{f:?}: file {:?}: {} bytes, but repairing the stream cut before the first failing chunk ({bad}) gives {t}", name.chars().take(16).collect::<String>(), bytes.len())).with_fault(f.clone()));
                        }
                    }
                }
            }
            // unauthenticated mode returns at least as much; authenticated result is a prefix of it
            // (not judged under an interrupting source: either repair may stop early at a different place)
            match if interrupts { Err(String::new()) } else { repair_files(&altered, false) } {
                Ok(un) => {
                    for (name, bytes) in &auth.0 {
                        let u = un.0.get(name).cloned().unwrap_or_default();
                        if !u.starts_with(bytes) {
                            v.push(Violation::new("auth-not-prefix-of-unauth", format!("{}|{badcls}", if case.cfg.comp() { "comp" } else { "nocomp" }), format!("{f:?}: file {:?}: authenticated {} bytes, unauthenticated {} bytes, not a prefix (auth {}, unauth {})", name.chars().take(16).collect::<String>(), bytes.len(), u.len(), describe(&auth.0), describe(&un.0))).with_fault(f.clone()));
                        }
                    }
                }
                Err(_) if interrupts => {}
                Err(_) => ctx.probe("unauth-repair-failed (C02/C08 clauses)"),
            }
            let target = match f {
                Fault::Flip { byte, .. } | Fault::Set { byte, .. } => {
                    let rel = (byte - hlen) % (chunk + 16);
                    if rel < chunk { "payload" } else { "tag" }
                }
                _ => "-",
            };
            ctx.sig(format!("{}|{}|{}|{}|{}|look{}|{}", case.cfg.variant, case.cfg.layer_name(), fault_kind(f), badcls, target, look, auth.1));
            if v.len() > 20 {
                break;
            }
        }
        // ONE transient source error (not `Interrupted`: a time-out, a would-block) at the k-th read call, the source
        // working again afterwards, on the undamaged image and on the first altered ones: the repair may stop there,
        // and what it wrote must still be prefixes of the original files
        let src_errors = case.param("src_errors", 0);
        if src_errors >= 1 {
            let before = v.len();
            let mut images: Vec<(String, Vec<u8>)> = vec![("undamaged".into(), image.clone())];
            for f in faults.iter().take(if src_errors == 2 { 0 } else { 2 }) {
                let a = apply_fault(&image, f, hlen, chunk, Some(&other));
                if a != image && a.len() >= hlen {
                    images.push((format!("{f:?}"), a));
                }
            }
            'img: for (what, img) in &images {
                // an image whose FIRST chunk fails is the known finding whatever the source does (chunk 0 is loaded
                // without authentication): it keeps its class; the others are classes of their own
                let d = refmla::decrypt_stream(&key, &nonce, &img[hlen..], chunk);
                let cls = if d.verified_chunks == d.total_chunks { "source-error|none" } else if d.verified_chunks == 0 { "first-bad-chunk=0" } else { "source-error|first-bad-chunk>0" };
                let mut r0 = rcfg.clone();
                r0.error_at_read = None;
                let clean = s.repair(Rc::new(img.clone()), &r0, true, &ocfg, &Sched::Full);
                let reads = clean.src.reads.max(1);
                let sweep = if src_errors == 2 { 600 } else { 20 };
                let ks: Vec<u64> = if reads <= sweep { (0..reads).collect() } else { (0..sweep).map(|_| frng.below(reads)).collect() };
                for k in ks {
                    let mut r = rcfg.clone();
                    r.error_at_read = Some(k);
                    ctx.eval();
                    let out = s.repair(Rc::new(img.clone()), &r, true, &ocfg, &Sched::Full);
                    if let Some(p) = out.panic {
                        v.push(Violation::new("auth-repair-panic", cls, format!("{what}, source error at read #{k} of {reads}: panic {p}")));
                        break 'img;
                    }
                    if out.init.is_err() || !matches!(out.convert, Some(Ok(_))) {
                        ctx.probe("source-error-repair-refused");
                        continue;
                    }
                    let Ok(files) = read_all(s, &Rc::new(out.out_image), &plain) else {
                        ctx.probe("source-error-repair-output-unreadable (C02's clause)");
                        continue;
                    };
                    for (name, bytes) in &files {
                        let nm: String = name.chars().take(16).collect();
                        match model.files.get(name) {
                            None => v.push(Violation::new("auth-foreign-name", cls, format!("{what}, one source error at read #{k} of {reads}: authenticated repair produced file {nm:?} ({} bytes) which is not in the original archive", bytes.len()))),
                            Some(o) if !o.starts_with(bytes) => v.push(Violation::new("auth-not-prefix", cls, format!("{what}, one source error at read #{k} of {reads}: file {nm:?}: {} recovered bytes are not a prefix of the original (first difference at {})", bytes.len(), first_diff(bytes, o)))),
                            _ => {}
                        }
                    }
                    if v.len() > before {
                        break 'img;
                    }
                }
            }
        }
        v
    }
}
