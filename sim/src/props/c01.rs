//! C01 Round-trip fidelity of every finalized archive (fault-free configuration).
use super::common::*;
use crate::model::*;
use crate::rng::Rng;
use crate::runner::{Case, Ctx, Prop, Tier, Violation};
use crate::seams::{Sched, SimSink};
use crate::sut::{consts_of, sut, ReadCfg, ROp, RRes};
use std::rc::Rc;

pub struct C01;

/// thorough tier only: archives holding a file longer than 2^32 bytes
const HUGE_RUNS: u64 = 4;

/// systematic part on s0: every total length 0..=4*BLOCK, 1 and 2 files, 4 layer sets
const SYS_LEN: u64 = 4 * 128 + 1;
const SYS_N: u64 = SYS_LEN * 4 * 2;

impl Prop for C01 {
    fn id(&self) -> &'static str {
        "C01"
    }
    fn level(&self) -> &'static str {
        "exploration"
    }
    fn rule(&self) -> String {
        "run = seeded valid writer history (start/append/end/add interleaved, boundary-biased piece sizes relative to the variant's constants) on one of the variants s0/s1/prodv/prod x 4 layer sets x level 0..11 x 1..4 recipients (one encrypted run in 30: 17, 84, 85, 86, 128, 300 or 1000 recipients; one scaled run in 25: 65..300 files of which 1-3 stay open across dozens of others; one in 60: a file with 255..4100 - thorough: 65537 - non-contiguous runs; one compressed production-size run in 10: a 4-5 MiB file of incompressible data appended in pieces of 64..512 bytes, i.e. 8000..80000 appends into one compression block, now and then with a flush after each), written to the simulated sink with full transfers (one history in four with flushes between calls, one in five with piece sources that return short reads or hold more than announced), then read back through the simulated source (caller buffers of 4 KiB, now and then 1, 7, 100, CHUNK-1, CHUNK+1, 64 KiB or 1 MiB bytes); the first 4104 runs enumerate every content length 0..512 on s0 for 1- and 2-file archives x 4 layer sets. The first 4 runs of the thorough tier hold a file of 2^32 + up to 64 MiB bytes (streamed; zeros under compression alone / over encryption; on the last one incompressible noise under compression, so that the compressed blocks themselves total more than 2^32 bytes - that archive lives in a scratch file; production constants; judged on listing, announced size, streamed length and SHA-256, stored hash, and the small files around it). Oracle: listing == model names, size, bytes and stored SHA-256 per file == abstract map model. distinct_nontrivial counts distinct signatures (variant, layers, #files, interleaved, alignment class of content length vs CHUNK and BLOCK, alignment class of the encryption-layer plaintext vs CHUNK, alignment class of the file-layer stream length vs BLOCK (compression) or CHUNK, name kinds). Half of the production-size runs are ALIGNED by a solver: a model of the file-layer stream length (blocks + marker + index footer) grows one piece so that the stream handed to the compression layer is exactly k*4 MiB (or +1, -1), respectively the encryption-layer plaintext exactly k*128 KiB (or +1..5 - the footer length field alone or split in the last chunk -, 15, 16, 17, -1).".into()
    }
    fn assumptions(&self) -> Vec<String> {
        vec![
            "scaled variants (s0, s1) are the same source compiled with smaller buffer/chunk/block constants that keep the production order and divisibility relations".into(),
            "sampled, not exhaustive, except the s0 length sweep".into(),
        ]
    }
    fn runs(&self, tier: Tier) -> u64 {
        match tier {
            Tier::Quick => SYS_N + 6_000,
            Tier::Thorough => SYS_N + 120_000 + HUGE_RUNS,
        }
    }
    fn make(&self, seed: u64, run: u64, tier: Tier) -> Case {
        // thorough tier: the four huge runs come FIRST (a worker that runs out of its wall-clock budget drops the
        // runs at the end of its list, never these); every other run keeps the index it has in the quick tier
        let (run, huge_k) = if tier == Tier::Thorough {
            if run < HUGE_RUNS { (SYS_N + 120_000 + run, Some(run)) } else { (run - HUGE_RUNS, None) }
        } else {
            (run, None)
        };
        let mut rng = Rng::derive(seed, "C01", run, "gen");
        if run < SYS_N {
            let layers = (run % 4) as u8;
            let two = (run / 4) % 2 == 1;
            let len = (run / 8) as usize;
            let cfg = ArcCfg { variant: "s0".into(), layers, level: (run % 12) as u32, recipients: usize::from(layers & 1 != 0), reader: 0, rng_seed: run + 1, key_seed: 7 };
            let mut ops = Vec::new();
            if two {
                let a = len / 3;
                ops.push(WOp::Start { f: 0, name: Name::lit("a") });
                ops.push(WOp::Start { f: 1, name: Name::lit("b") });
                ops.push(WOp::Append { f: 0, data: Data::Rand { n: a, seed: run }, src: Src::exact() });
                ops.push(WOp::Append { f: 1, data: Data::Text { n: len - a, seed: run }, src: Src::exact() });
                ops.push(WOp::End { f: 0 });
                ops.push(WOp::End { f: 1 });
            } else {
                ops.push(WOp::Add { name: Name::lit("a"), data: Data::Rand { n: len, seed: run }, src: Src::exact() });
            }
            ops.push(WOp::Finalize);
            return Case::new("C01", cfg, ops);
        }
        if let Some(k) = huge_k {
            // a file longer than 2^32 bytes (zeros, streamed through compression, alone or over encryption): sizes,
            // offsets and counters beyond 32 bits in the writer, the index and the reader
            // the last one is INCOMPRESSIBLE (compression alone, level 0): more than 2^32 bytes of compressed blocks, the
            // archive itself spilled to a scratch file
            let noise = k == HUGE_RUNS - 1;
            let layers = if noise || k % 2 == 0 { L_COMP } else { L_COMP | L_ENC };
            let cfg = ArcCfg { variant: "prodv".into(), layers, level: if noise { 0 } else { (k % 2) as u32 }, recipients: usize::from(layers & 1 != 0), reader: 0, rng_seed: run + 1, key_seed: 7 };
            let n = (1usize << 32) + rng.range(1, 64 << 20) as usize;
            let stream = Src { sched: Sched::Full, short_by: 0, extra: 0, stream: true };
            let piece = |n: usize, seed: u64| if noise { Data::Rand { n, seed } } else { Data::Zeros { n } };
            let ops = vec![WOp::Add { name: Name::lit("before"), data: Data::Text { n: 777, seed: 2 }, src: Src::exact() }, WOp::Start { f: 1, name: Name::lit("huge") }, WOp::Append { f: 1, data: piece(n / 2, 11), src: stream.clone() }, WOp::Append { f: 1, data: piece(n - n / 2, 12), src: stream }, WOp::End { f: 1 }, WOp::Add { name: Name::lit("after"), data: Data::Text { n: 1000, seed: 4 }, src: Src::exact() }, WOp::Finalize];
            let mut case = Case::new("C01", cfg, ops);
            case.params.insert("huge".into(), n as i64);
            case.params.insert("noise".into(), i64::from(noise));
            return case;
        }
        let variant = pick_variant(&mut rng, tier);
        let vc = consts_of(variant);
        let mut c = vc.model_consts();
        if vc.chunk > 1000 && rng.chance(3, 4) {
            // most production-size runs stay around chunk edges (cheap); the rest reach block edges
            c.block = 2 * c.chunk;
            c.repair_cache = 4 * c.chunk;
        }
        let cfg = gen_cfg(&mut rng, variant, vc.hooks);
        let big = vc.chunk > 1000;
        let o = GenOpts {
            max_files: 6,
            max_ops: if big { 14 } else { 40 },
            max_piece: if big { 2 * c.block + 100 } else { 3 * c.block },
            max_total: if big { 3 * c.block } else { 12 * c.block },
            interleave: rng.chance(2, 3),
            // one history in four also flushes between calls (round trip, not recovery: what was flushed mid-block or
            // mid-buffer must still read back), one in five feeds pieces from sources that return short reads or hold
            // more bytes than announced
            flushes: rng.chance(1, 4),
            special_names: true,
            finalize: true,
            piece_scheds: rng.chance(1, 5),
        };
        let mut ops = gen_ops(&mut rng, &c, &o);
        if o.flushes && big && rng.chance(1, 2) {
            // a flush right where a layer rolls over: after the piece that the alignment below will grow
            if let Some(pos) = ops.iter().rposition(|o| matches!(o, WOp::Append { data, .. } | WOp::Add { data, .. } if data.len() > 0)) {
                ops.insert(pos + 1, WOp::Flush);
            }
        }
        let mut cfg = cfg;
        let mut aligned = 0i64;
        if big && rng.chance(1, 2) {
            // solve for alignment at the REAL constants: the stream handed to the first layer ends
            // exactly on / next to a block edge (compression) or a chunk edge (encryption only)
            if cfg.comp() {
                cfg.level = cfg.level.min(6);
                let r = *rng.pick(&[0usize, 0, 0, 1, vc.block as usize - 1]);
                if align_stream(&mut ops, vc.block as usize, r) {
                    aligned = 1;
                }
            } else if cfg.enc() {
                let r = *rng.pick(&[0usize, 0, 1, 2, 3, 4, 5, 15, 16, 17, vc.chunk as usize - 1]);
                if align_stream(&mut ops, vc.chunk as usize, r) {
                    aligned = 2;
                }
            }
        }
        if !big && rng.chance(1, 25) {
            let n = *rng.pick(&[65usize, 70, 129, 200, 257, 300]);
            let ll = rng.range(1, 3) as usize;
            ops = gen_many_files(&mut rng, n, ll, 40);
        }
        if !big && rng.chance(1, 60) {
            // one file with hundreds (now and then more than 65535) of non-contiguous runs
            let runs = *rng.pick(&[255usize, 256, 257, 300, 1000, if tier == Tier::Thorough { 65_537 } else { 4_100 }]);
            ops = gen_many_runs(&mut rng, runs);
        }
        if big && cfg.comp() && rng.chance(1, 10) {
            // production constants: ONE compression block fed by thousands of small appends of incompressible data
            // (every append costs the streaming compressor a few bytes), now and then with a flush after each
            let flush_each = rng.chance(1, 6);
            // (the high levels cost seconds per thousand flushes: kept for the plain appends, with larger pieces)
            cfg.level = if flush_each { *rng.pick(&[0u32, 1, 2]) } else { *rng.pick(&[0u32, 1, 1, 2, 5, 9]) };
            let piece = if cfg.level >= 5 { 512 } else { *rng.pick(&[64usize, 200, 256, 512]) };
            let total = vc.block as usize + rng.usize_below(vc.block as usize / 4);
            let mut v = vec![WOp::Start { f: 0, name: Name::lit("dense") }];
            let mut left = total;
            while left > 0 {
                let n = piece.min(left);
                v.push(WOp::Append { f: 0, data: Data::Rand { n, seed: rng.u64() }, src: Src::exact() });
                if flush_each {
                    v.push(WOp::Flush);
                }
                left -= n;
            }
            v.push(WOp::End { f: 0 });
            v.push(WOp::Finalize);
            ops = v;
            aligned = 0;
        }
        maybe_many_recipients(&mut rng, &mut cfg, 30);
        let mut case = Case::new("C01", cfg, ops);
        // caller's read buffer: 4 KiB mostly, now and then tiny, odd, around the chunk size or 1 MiB
        case.params.insert("read_buf".into(), *rng.pick(&[0i64, 0, 0, 1, 7, 100, vc.chunk as i64 - 1, vc.chunk as i64 + 1, 1 << 16, 1 << 20]));
        if aligned != 0 {
            case.params.insert("aligned".into(), aligned);
        }
        case
    }
    fn exec(&self, case: &Case, ctx: &mut Ctx) -> Vec<Violation> {
        let s = sut(&case.cfg.variant);
        let vc = s.consts();
        // the incompressible 4 GiB run stores its archive in a scratch file, not in memory
        let noise = case.param("noise", 0) == 1;
        let scratch = crate::runner::verif_dir().join(".build").join("scratch").join(format!("c01-{}-{}", std::process::id(), case.param("huge", 0)));
        let spill = scratch.join("huge.mla");
        if noise {
            let _ = std::fs::create_dir_all(&scratch);
        }
        struct Cleanup(Option<std::path::PathBuf>);
        impl Drop for Cleanup {
            fn drop(&mut self) {
                if let Some(p) = &self.0 {
                    let _ = std::fs::remove_dir_all(p);
                }
            }
        }
        let _cleanup = Cleanup(if noise { Some(scratch.clone()) } else { None });
        let sink = if noise { SimSink::counting(&Sched::Full, Some(&spill)) } else { SimSink::new(&Sched::Full) };
        let w = s.write(&case.cfg, &case.ops, sink.clone());
        let mut v = Vec::new();
        ctx.eval();
        if let Some(p) = &w.panic {
            v.push(Violation::new("write-panic", "write", format!("writer panicked: {p}")));
            return v;
        }
        if let Some(e) = &w.from_config_err {
            v.push(Violation::new("write-op-failed", "from_config", format!("from_config failed: {e}")));
            return v;
        }
        for (i, r) in w.results.iter().enumerate() {
            if let Err(e) = r {
                v.push(Violation::new("write-op-failed", "op", format!("valid op #{i} {} failed: {e}", case.ops[i].short())));
                return v;
            }
        }
        if case.param("huge", 0) > 0 {
            // never materialised: listing, announced size, streamed length + SHA-256 and stored hash of the huge file,
            // bytes of the small files around it
            use sha2::Digest;
            crate::seams::fired("file_longer_than_2_pow_32");
            let n = case.param("huge", 0) as u64;
            let mut h = sha2::Sha256::new();
            let zeros = vec![0u8; 1 << 20];
            let mut left = n;
            while left > 0 {
                let k = left.min(1 << 20) as usize;
                h.update(&zeros[..k]);
                left -= k as u64;
            }
            let mut want: [u8; 32] = h.finalize().into();
            let small: Vec<(String, Vec<u8>)> = case.ops.iter().filter_map(|o| if let WOp::Add { name, data, .. } = o { Some((name.string(), data.bytes())) } else { None }).collect();
            let mut rcfg = ReadCfg::for_cfg(&case.cfg);
            if noise {
                rcfg.spill_path = Some(spill.to_string_lossy().to_string());
            }
            let mut rops = vec![ROp::List, ROp::Open { name: "huge".into() }, ROp::ReadAllDigest { n: 1 << 20 }, ROp::Hash { name: "huge".into() }];
            for (nm, _) in &small {
                rops.push(ROp::Open { name: nm.clone() });
                rops.push(ROp::ReadAll { n: 4096 });
            }
            let out = s.read(Rc::new(if noise { Vec::new() } else { sink.data() }), &rcfg, &rops);
            ctx.eval();
            if noise {
                // the generated noise is not recomputed by the harness: what is read back must hash to the STORED hash
                // (and have the right length)
                if let (Some(RRes::Digest { .. }), Some(RRes::Hash(hh))) = (out.results.get(2), out.results.get(3)) {
                    want = *hh;
                }
            }
            if let Some(p) = &out.panic {
                v.push(Violation::new("rt-panic", "huge", format!("reader panicked on the archive holding a {n}-byte file: {p}")));
                return v;
            }
            if let Err(e) = &out.open {
                v.push(Violation::new("rt-open-failed", "huge", format!("valid archive (a {n}-byte file) does not open: {e}")));
                return v;
            }
            let mut names: Vec<String> = small.iter().map(|(n, _)| n.clone()).chain(["huge".to_string()]).collect();
            names.sort();
            let r = &out.results;
            if r.first() != Some(&RRes::Names(names)) {
                v.push(Violation::new("rt-listing", "huge", format!("listing differs: {:?}", r.first())));
            }
            if r.get(1) != Some(&RRes::Opened { size: n }) {
                v.push(Violation::new("rt-size", "huge", format!("announced size of the {n}-byte file: {:?}", r.get(1))));
            }
            if r.get(2) != Some(&RRes::Digest { len: n, sha: want }) {
                v.push(Violation::new("rt-content", "huge", format!("reading the {n}-byte file to its end: {:?} (want length {n}, sha {})", r.get(2).map(|x| format!("{x:?}").chars().take(120).collect::<String>()), hex::encode(want))));
            }
            if r.get(3) != Some(&RRes::Hash(want)) {
                v.push(Violation::new("rt-hash", "huge", format!("stored hash of the {n}-byte file differs from the SHA-256 of its bytes")));
            }
            for (i, (nm, bytes)) in small.iter().enumerate() {
                if r.get(4 + 2 * i + 1) != Some(&RRes::Bytes(bytes.clone())) {
                    v.push(Violation::new("rt-content", "huge-neighbour", format!("file {nm:?} stored next to the {n}-byte file reads back differently")));
                }
            }
            ctx.sig(format!("huge|{}", case.cfg.layer_name()));
            return v;
        }
        let model = model_of(&case.ops);
        let image = Rc::new(sink.data());
        let rcfg = case.rcfg.clone().unwrap_or_else(|| ReadCfg::for_cfg(&case.cfg));
        let buf = match case.param("read_buf", 0) {
            0 => 4096,
            n => n as usize,
        };
        v.extend(check_readback(s, &image, &rcfg, &model, buf, ctx, "rt"));
        // the stream-length model used by the alignment solver must agree with the real image (harness self-check)
        if !case.cfg.comp() {
            let stream = image.len().saturating_sub(header_len(&case.cfg));
            let plain = if case.cfg.enc() { enc_plain_len(stream, vc.chunk as usize) } else { stream };
            if plain != stream_len(&case.ops) {
                ctx.probe("stream-length-model-mismatch");
            } else {
                ctx.probe("stream-length-model-agrees");
            }
        }
        // signature
        let total: usize = model.files.values().map(Vec::len).sum();
        let chunk = vc.chunk as usize;
        let block = vc.block as usize;
        let stream = image.len().saturating_sub(header_len(&case.cfg));
        let encp = if case.cfg.enc() { align_class(enc_plain_len(stream, chunk), chunk) } else { "-" };
        let inter = case.ops.windows(2).any(|w| matches!((&w[0], &w[1]), (WOp::Append { f: a, .. }, WOp::Append { f: b, .. }) if a != b));
        let names: Vec<&str> = model.order.iter().map(|n| if n.is_empty() { "empty" } else if n.len() > 60000 { "max" } else if !n.is_ascii() { "uni" } else { "ascii" }).collect();
        let mut nk: Vec<&str> = names.clone();
        nk.sort();
        nk.dedup();
        ctx.sig(format!("{}|{}|f{}|i{}|c{}|b{}|e{}|s{}|{}", case.cfg.variant, case.cfg.layer_name(), model.files.len().min(4), inter, align_class(total, chunk), align_class(total, block), encp, align_class(stream_len(&case.ops), if case.cfg.comp() { block } else { chunk }), nk.join("+")));
        v
    }
}
