//! C08 Untrusted input never crashes, hangs or exhausts memory.
use super::common::*;
use crate::model::*;
use crate::refmla::{self, FBlock};
use crate::rng::Rng;
use crate::runner::{Case, Ctx, Fault, Prop, Tier, Violation};
use crate::seams::{self, heap_mark, Sched, SimSink};
use crate::sut::{consts_of, sut, LOp, ROp, RRes, ReadCfg};
use std::rc::Rc;

pub struct C08;

const INTERESTING: &[u64] = &[0, 1, 2, 0x7f, 0x80, 0xff, 0x100, 0xffff, 0x1_0000, 0x1_0001, 0x7fff_ffff, 0x8000_0000, 0xffff_ffff, 0x1_0000_0000, 0x2000_0000, 0x7fff_ffff_ffff_ffff, 0x8000_0000_0000_0000, 0xffff_ffff_ffff_ffff];

/// Boundary values derived from the arithmetic the layers apply to positions (not only the usual
/// 0 / 2^k / 2^64-1): the largest plaintext position whose position-with-tags still fits in 64 bits,
/// quotients and multiples of the chunk, chunk+tag and block sizes near 2^64.
fn derived_values(chunk: u64, block: u64) -> Vec<u64> {
    let ct = chunk + 16;
    let q = u64::MAX / ct;
    let enc_max = q * chunk + (u64::MAX % ct).min(chunk - 1);
    let mut v = vec![enc_max - 1, enc_max, enc_max + 1, enc_max + chunk / 2, q * chunk + chunk - 1, q * chunk, (q + 1) * chunk, q, q * ct, q * ct - 1];
    for m in [chunk, ct, block] {
        let qm = u64::MAX / m;
        v.extend_from_slice(&[qm, qm * m, qm * m - 1, (qm * m).wrapping_add(1), qm - 1]);
    }
    v.push(u64::MAX - chunk);
    v.push(u64::MAX - ct);
    v.push(i64::MAX as u64 - chunk);
    v
}

/// numeric fields (offset, width) of a file-layer stream, from the format model's parse
fn inner_fields(stream: &[u8]) -> Vec<(usize, usize, &'static str)> {
    let mut f = Vec::new();
    let idx = refmla::parse_index(stream).ok();
    let upto = idx.as_ref().map(|i| i.at).unwrap_or(stream.len());
    let (blocks, _) = refmla::parse_blocks(&stream[..upto]);
    for b in &blocks {
        match b {
            FBlock::Start { off, .. } => {
                f.push((*off, 1, "blk-type"));
                f.push((off + 1, 8, "blk-id"));
                f.push((off + 9, 8, "name-len"));
            }
            FBlock::Content { off, .. } => {
                f.push((*off, 1, "blk-type"));
                f.push((off + 1, 8, "blk-id"));
                f.push((off + 9, 8, "content-len"));
            }
            FBlock::End { off, .. } => {
                f.push((*off, 1, "blk-type"));
                f.push((off + 1, 8, "blk-id"));
            }
            FBlock::EndOfArchive { off } => f.push((*off, 1, "blk-type")),
        }
    }
    if let Some(i) = &idx {
        f.push((i.at, 8, "index-count"));
        for e in &i.entries {
            let mut p = e.at;
            f.push((p, 8, "index-name-len"));
            p = p.saturating_add(8 + e.name.len());
            f.push((p, 8, "index-noffsets"));
            p += 8;
            for _ in &e.offsets {
                f.push((p, 8, "index-offset"));
                p += 8;
            }
            f.push((p, 8, "index-size"));
            f.push((p + 8, 8, "index-eof"));
        }
        f.push((stream.len() - 4, 4, "index-len"));
    }
    f
}

fn comp_fields(data: &[u8]) -> Vec<(usize, usize, &'static str)> {
    let mut f = Vec::new();
    if data.len() < 4 {
        return f;
    }
    let flen = u32::from_le_bytes(data[data.len() - 4..].try_into().unwrap()) as usize;
    f.push((data.len() - 4, 4, "sizes-len"));
    if flen + 4 <= data.len() && flen >= 12 {
        let at = data.len() - 4 - flen;
        f.push((at, 8, "sizes-count"));
        let n = (flen - 12) / 4;
        for i in 0..n {
            f.push((at + 8 + 4 * i, 4, "sizes-entry"));
        }
        f.push((at + 8 + 4 * n, 4, "sizes-last"));
    }
    f
}

fn put(buf: &mut [u8], at: usize, width: usize, val: u64) {
    let b = val.to_le_bytes();
    for i in 0..width.min(8) {
        if let Some(x) = buf.get_mut(at + i) {
            *x = b[i];
        }
    }
}

/// one structured mutation of a byte string with known fields
fn mutate(buf: &mut Vec<u8>, fields: &[(usize, usize, &'static str)], rng: &mut Rng, derived: &[u64]) -> String {
    if buf.is_empty() {
        buf.push(rng.below(256) as u8);
        return "grow".into();
    }
    match rng.below(11) {
        10 if fields.len() >= 2 => {
            // TWO related fields changed together so that what they add up to stays the same (a sizes-table entry
            // emptied into its neighbour, a length moved between two prefixes...): each value alone is plausible, later
            // positions do not move, so the image still opens and the odd pair is met later
            let i = rng.usize_below(fields.len() - 1);
            let (a_at, a_w, name) = fields[i];
            // the nearest later field of the same kind and width, else the next one
            let j = (i + 1..fields.len()).find(|j| fields[*j].2 == name && fields[*j].1 == a_w).unwrap_or(i + 1);
            let (b_at, b_w, _) = fields[j];
            let get = |buf: &[u8], at: usize, w: usize| -> u64 {
                let mut x = [0u8; 8];
                for k in 0..w.min(8) {
                    x[k] = buf.get(at + k).copied().unwrap_or(0);
                }
                u64::from_le_bytes(x)
            };
            let (a, b) = (get(buf, a_at, a_w), get(buf, b_at, b_w));
            let (na, nb) = match rng.below(5) {
                0 => (a.wrapping_add(b), 0),
                1 => (0, a.wrapping_add(b)),
                2 => (a.wrapping_add(1), b.wrapping_sub(1)),
                3 => (a.wrapping_sub(1), b.wrapping_add(1)),
                _ => (b, a),
            };
            put(buf, a_at, a_w, na);
            put(buf, b_at, b_w, nb);
            format!("pair:{name}")
        }
        0..=4 if !fields.is_empty() => {
            let (at, w, name) = *rng.pick(fields);
            let val = if rng.chance(1, 4) && !derived.is_empty() { *rng.pick(derived) } else { *rng.pick(INTERESTING) };
            let val = if rng.chance(1, 3) { buf.len() as u64 + rng.below(5) - 2 } else { val };
            put(buf, at, w, val);
            format!("field:{name}")
        }
        5 => {
            let at = rng.usize_below(buf.len());
            buf[at] ^= 1 << rng.below(8);
            "bitflip".into()
        }
        6 => {
            let at = rng.usize_below(buf.len());
            buf[at] = *rng.pick(&[0u8, 0xff, 0x7f, 0x80, 0xfe, 0x01]);
            "byte-set".into()
        }
        7 => {
            let n = rng.usize_below(buf.len() + 1);
            buf.truncate(n);
            "cut".into()
        }
        8 => {
            // duplicate / delete / move a span
            let a = rng.usize_below(buf.len());
            let b = (a + rng.usize_below(64) + 1).min(buf.len());
            let span: Vec<u8> = buf[a..b].to_vec();
            match rng.below(3) {
                0 => {
                    let at = rng.usize_below(buf.len() + 1);
                    let tail = buf.split_off(at);
                    buf.extend_from_slice(&span);
                    buf.extend_from_slice(&tail);
                    "span-dup".into()
                }
                1 => {
                    buf.drain(a..b);
                    "span-del".into()
                }
                _ => {
                    buf.drain(a..b);
                    let at = rng.usize_below(buf.len() + 1);
                    let tail = buf.split_off(at);
                    buf.extend_from_slice(&span);
                    buf.extend_from_slice(&tail);
                    "span-move".into()
                }
            }
        }
        _ => {
            let k = rng.range(1, 40) as usize;
            buf.extend(rng.bytes(k));
            "garbage-tail".into()
        }
    }
}

/// hand-built hostile file-layer streams
fn crafted_stream(kind: u64, rng: &mut Rng, scale: usize, derived: &[u64]) -> (Vec<u8>, &'static str) {
    use refmla::WBlock as W;
    let h = |d: &[u8]| -> [u8; 32] { sha256(d) };
    match kind {
        0 | 9 => {
            // thousands of index offsets of file "a" pointing at blocks of ANOTHER file: either all at the same block, or
            // (since the reader skips offsets it has already passed) at thousands of distinct blocks one after the other
            let n = 2000 * scale;
            if kind == 0 {
                let blocks = vec![W::Start { id: 0, name: b"a".to_vec() }, W::Start { id: 1, name: b"b".to_vec() }, W::Content { id: 1, data: vec![7; 10] }, W::End { id: 1, hash: h(&[7; 10]) }, W::Content { id: 0, data: vec![1; 4] }, W::End { id: 0, hash: h(&[1; 4]) }, W::EndOfArchive];
                let (mut s, offs) = refmla::encode_blocks(&blocks);
                let mut o = vec![offs[0] as u64];
                o.extend(std::iter::repeat(offs[2] as u64).take(n));
                o.push(offs[4] as u64);
                s.extend(refmla::encode_index(&[("a".into(), o, 4, offs[5] as u64), ("b".into(), vec![offs[1] as u64], 10, offs[3] as u64)]));
                (s, "many-offsets-foreign-block")
            } else {
                let n = n / 4;
                let mut blocks = vec![W::Start { id: 0, name: b"a".to_vec() }, W::Start { id: 1, name: b"b".to_vec() }];
                for _ in 0..n {
                    blocks.push(W::Content { id: 1, data: vec![7] });
                }
                blocks.push(W::End { id: 1, hash: h(&vec![7u8; n]) });
                blocks.push(W::Content { id: 0, data: vec![1; 4] });
                blocks.push(W::End { id: 0, hash: h(&[1; 4]) });
                blocks.push(W::EndOfArchive);
                let (mut s, offs) = refmla::encode_blocks(&blocks);
                let mut o = vec![offs[0] as u64];
                o.extend(offs[2..2 + n].iter().map(|x| *x as u64));
                o.push(offs[n + 3] as u64);
                s.extend(refmla::encode_index(&[("a".into(), o, 4, offs[n + 4] as u64), ("b".into(), vec![offs[1] as u64], n as u64, offs[n + 2] as u64)]));
                (s, "many-offsets-many-foreign-blocks")
            }
        }
        1 => {
            // empty offsets, offsets out of range, eof out of range
            let blocks = vec![W::Start { id: 0, name: b"a".to_vec() }, W::Content { id: 0, data: vec![1; 4] }, W::End { id: 0, hash: h(&[1; 4]) }, W::EndOfArchive];
            let (mut s, _) = refmla::encode_blocks(&blocks);
            let far = *rng.pick(INTERESTING);
            s.extend(refmla::encode_index(&[("a".into(), vec![], 4, far), ("b".into(), vec![far], far, far), ("c".into(), vec![0, far, 3], 1, 2)]));
            (s, "index-offsets-out-of-range")
        }
        2 => {
            // zero-length content blocks, content before start, id reuse, missing end
            let blocks = vec![W::Content { id: 5, data: vec![1; 3] }, W::Start { id: 0, name: b"a".to_vec() }, W::Content { id: 0, data: vec![] }, W::Content { id: 0, data: vec![] }, W::Start { id: 0, name: b"a2".to_vec() }, W::End { id: 0, hash: [0; 32] }, W::End { id: 0, hash: [0; 32] }, W::EndOfArchive, W::EndOfArchive];
            let (mut s, offs) = refmla::encode_blocks(&blocks);
            s.extend(refmla::encode_index(&[("a".into(), vec![offs[1] as u64, offs[2] as u64], 0, offs[5] as u64), ("a2".into(), vec![offs[4] as u64], 7, offs[6] as u64)]));
            (s, "degenerate-blocks")
        }
        3 => {
            // announced lengths far beyond the data
            let big = *rng.pick(&[0x7fff_ffff_ffff_ffffu64, 0xffff_ffff_ffff_ffff, 0x1_0000_0000, 1 << 40]);
            let blocks = vec![W::Start { id: 0, name: b"a".to_vec() }, W::ContentLen { id: 0, len: big, data: vec![9; 20] }, W::End { id: 0, hash: [1; 32] }, W::EndOfArchive];
            let (mut s, offs) = refmla::encode_blocks(&blocks);
            s.extend(refmla::encode_index(&[("a".into(), vec![offs[0] as u64], big, offs[2] as u64)]));
            (s, "huge-content-length")
        }
        4 => {
            // index with a huge string / vector length prefix
            let blocks = vec![W::Start { id: 0, name: b"a".to_vec() }, W::End { id: 0, hash: h(b"") }, W::EndOfArchive];
            let (mut s, _) = refmla::encode_blocks(&blocks);
            let mut idx = Vec::new();
            idx.extend_from_slice(&1u64.to_le_bytes());
            let l = *rng.pick(&[0x1fff_ffffu64, 0x2000_0000, 0x1000_0000, 0xffff_ffff, 1 << 33]);
            idx.extend_from_slice(&l.to_le_bytes());
            idx.extend_from_slice(b"short");
            let dl = *rng.pick(&[idx.len() as u32, 0x2000_0000, 0xffff_ffff, 0x1fff_fff0]);
            idx.extend_from_slice(&dl.to_le_bytes());
            s.extend(idx);
            (s, "huge-length-prefix")
        }
        5 => {
            // index whose length field exceeds the stream / is tiny
            let blocks = vec![W::Start { id: 0, name: b"a".to_vec() }, W::End { id: 0, hash: h(b"") }, W::EndOfArchive];
            let (mut s, offs) = refmla::encode_blocks(&blocks);
            let mut idx = refmla::encode_index(&[("a".into(), vec![offs[0] as u64], 0, offs[1] as u64)]);
            let n = idx.len();
            let l = *rng.pick(&[0u32, 1, 3, (n + s.len()) as u32, (n + s.len() + 1) as u32, 0xffff_ffff, 0x8000_0000]);
            idx[n - 4..].copy_from_slice(&l.to_le_bytes());
            s.extend(idx);
            (s, "index-length-field")
        }
        8 => {
            // index offsets at the edge of what the layers' position arithmetic can represent
            let blocks = vec![W::Start { id: 0, name: b"a".to_vec() }, W::Content { id: 0, data: vec![1; 4] }, W::End { id: 0, hash: h(&[1; 4]) }, W::Start { id: 1, name: b"b".to_vec() }, W::End { id: 1, hash: h(b"") }, W::EndOfArchive];
            let (mut s, offs) = refmla::encode_blocks(&blocks);
            let pick = |rng: &mut Rng| -> u64 { if derived.is_empty() { u64::MAX } else { *rng.pick(derived) } };
            let a = pick(rng);
            let b = pick(rng);
            s.extend(refmla::encode_index(&[("a".into(), vec![a], 4, offs[2] as u64), ("b".into(), vec![offs[3] as u64], 0, b), ("c".into(), vec![offs[0] as u64, a, b], a, b)]));
            (s, "index-offsets-at-arithmetic-edge")
        }
        6 => {
            // only a length field, or nothing at all
            let n = rng.below(8) as usize;
            (rng.bytes(n), "tiny-stream")
        }
        _ => {
            // FileStart names: invalid utf8, max length, over max
            let l = *rng.pick(&[65536u64, 65537, 1 << 32, u64::MAX]);
            let mut s = vec![0u8];
            s.extend_from_slice(&0u64.to_le_bytes());
            s.extend_from_slice(&l.to_le_bytes());
            s.extend(std::iter::repeat(0xC3).take(40));
            s.push(0xFE);
            s.extend(refmla::encode_index(&[("\u{fffd}".into(), vec![0], 0, 0)]));
            (s, "filestart-name-length")
        }
    }
}

fn hostile_compressed(kind: u64, plain: &[u8], par: refmla::Params, level: u32, rng: &mut Rng) -> (Vec<u8>, &'static str) {
    let mut c = refmla::compress_all(plain, par.block, level);
    let n = c.len();
    match kind {
        0 => {
            // empty size table
            let mut f = Vec::new();
            f.extend_from_slice(&0u64.to_le_bytes());
            f.extend_from_slice(&(*rng.pick(&[0u32, 5, 0xffff_ffff])).to_le_bytes());
            f.extend_from_slice(&12u32.to_le_bytes());
            let mut out = c[..n.min(10)].to_vec();
            out.extend(f);
            (out, "sizes-empty-table")
        }
        1 => {
            // last_block_size larger than BLOCK / zero
            let v = *rng.pick(&[0u32, par.block as u32 + 1, 0xffff_ffff, 0x8000_0000]);
            c[n - 8..n - 4].copy_from_slice(&v.to_le_bytes());
            (c, "sizes-last-block")
        }
        2 => {
            // one compressed size huge
            let fields = comp_fields(&c);
            if let Some((at, _, _)) = fields.iter().find(|f| f.2 == "sizes-entry") {
                let v = *rng.pick(&[0xffff_ffffu32, 0x7fff_ffff, 0x4000_0000, 0]);
                c[*at..*at + 4].copy_from_slice(&v.to_le_bytes());
            }
            (c, "sizes-entry-huge")
        }
        3 => {
            // footer length field
            let v = *rng.pick(&[0u32, 1, 11, n as u32, n as u32 - 3, 0xffff_ffff]);
            c[n - 4..].copy_from_slice(&v.to_le_bytes());
            (c, "sizes-length-field")
        }
        6 => {
            // tens of thousands of EMPTY brotli streams in a row (one byte each: 0x06 = window 16, last, empty; also 0x3b),
            // after the first valid block or alone; the sizes table declares one block per stream. A decoder loop that
            // handles "stream ended, nothing produced, input left" by calling itself goes as deep as the run is long.
            let nrep = *rng.pick(&[5_000usize, 60_000, 150_000]);
            let byte = *rng.pick(&[0x06u8, 0x06, 0x3b]);
            let keep_first = rng.chance(1, 2);
            let fields = comp_fields(&c);
            let first_sz = fields.iter().find(|f| f.2 == "sizes-entry").map(|f| u32::from_le_bytes(c[f.0..f.0 + 4].try_into().unwrap()) as usize).unwrap_or(0).min(n);
            let mut out: Vec<u8> = if keep_first { c[..first_sz].to_vec() } else { Vec::new() };
            let lead = usize::from(keep_first && first_sz > 0);
            out.extend(std::iter::repeat(byte).take(nrep));
            let count = lead + nrep;
            out.extend_from_slice(&(count as u64).to_le_bytes());
            if lead == 1 {
                out.extend_from_slice(&(first_sz as u32).to_le_bytes());
            }
            for _ in 0..nrep {
                out.extend_from_slice(&1u32.to_le_bytes());
            }
            out.extend_from_slice(&0u32.to_le_bytes());
            out.extend_from_slice(&((8 + 4 * count + 4) as u32).to_le_bytes());
            (out, "many-empty-brotli-streams")
        }
        5 => {
            // a well-formed brotli stream announcing the "large window" extension with 30 window bits and a
            // first, non-last, uncompressed metablock of 16 bytes: the decoder sizes its ring buffer 1 GiB
            let mut bits: Vec<u8> = Vec::new();
            let mut push = |v: u32, n: u32| {
                for i in 0..n {
                    bits.push(((v >> i) & 1) as u8);
                }
            };
            push(1, 1); // WBITS: not 16
            push(0, 3); // ... not 18..24
            push(1, 3); // ... escape value 1
            push(0, 1); // large window
            push(*rng.pick(&[30u32, 29, 28, 27]), 6); // window bits
            push(0, 1); // ISLAST = 0
            push(0, 2); // MNIBBLES = 4
            push(15, 16); // MLEN - 1
            push(1, 1); // ISUNCOMPRESSED
            while bits.len() % 8 != 0 {
                bits.push(0);
            }
            let mut out: Vec<u8> = bits.chunks(8).map(|c| c.iter().enumerate().fold(0u8, |a, (i, b)| a | (b << i))).collect();
            out.extend_from_slice(&[0x42; 16]);
            // a second non-last uncompressed metablock (so that the decoder cannot tell that the stream is
            // about to end and keeps the full ring buffer): ISLAST=0, MNIBBLES=4, MLEN-1=15, ISUNCOMPRESSED=1, padding
            let mut b2: Vec<u8> = Vec::new();
            let mut push2 = |v: u32, n: u32| {
                for i in 0..n {
                    b2.push(((v >> i) & 1) as u8);
                }
            };
            push2(0, 1);
            push2(0, 2);
            push2(15, 16);
            push2(1, 1);
            while b2.len() % 8 != 0 {
                b2.push(0);
            }
            out.extend(b2.chunks(8).map(|c| c.iter().enumerate().fold(0u8, |a, (i, b)| a | (b << i))));
            out.extend_from_slice(&[0x43; 16]);
            out.push(3); // ISLAST + ISEMPTY
            let sz = out.len() as u32;
            out.extend_from_slice(&1u64.to_le_bytes());
            out.extend_from_slice(&sz.to_le_bytes());
            out.extend_from_slice(&32u32.to_le_bytes());
            out.extend_from_slice(&16u32.to_le_bytes());
            (out, "brotli-large-window-header")
        }
        _ => {
            // a block that decompresses to more than BLOCK (one brotli stream for everything)
            let mut out = Vec::new();
            let big = vec![0x41u8; par.block * 3 + 7];
            {
                use std::io::Write;
                let mut w = brotli::CompressorWriter::new(&mut out, 4096, 5, 22);
                w.write_all(&big).unwrap();
            }
            let sz = out.len() as u32;
            out.extend_from_slice(&1u64.to_le_bytes());
            out.extend_from_slice(&sz.to_le_bytes());
            out.extend_from_slice(&(par.block as u32).to_le_bytes());
            out.extend_from_slice(&16u32.to_le_bytes());
            (out, "block-longer-than-declared")
        }
    }
}

impl Prop for C08 {
    fn id(&self) -> &'static str {
        "C08"
    }
    fn level(&self) -> &'static str {
        "fault_enumeration"
    }
    fn rule(&self) -> String {
        "run = a hostile image derived from a seeded valid archive (all layer sets) by k <= 3 structured faults placed at any of the three layers of the stack: (stored) cut, bit flip, byte substitution, integer-field overwrite with boundary values, encrypted-chunk swap/duplicate/delete/splice, garbage tail, raw PRNG bytes; (inner) the decrypted/decompressed file-layer stream or the compressed stream is mutated on its parsed fields (block type/id/length, every index field, size-table fields: values 0,1,len-1,len,len+1,2^31,2^32-1,2^63,2^64-1... and PAIRS of related fields changed together so that their sum is kept (an entry of the sizes table emptied into its neighbour, +-1 moved between two neighbours, two values swapped); values DERIVED from the position arithmetic of the layers: the largest plaintext position whose position-with-tags fits in 64 bits, +-1, quotients/multiples of CHUNK, CHUNK+16 and BLOCK near 2^64), spans duplicated/deleted/moved, or replaced by a hand-built hostile stream (thousands of index offsets pointing at a foreign block or at thousands of distinct foreign blocks in a row, index offsets at the edge of what the layers' position arithmetic can represent, empty/out-of-range offset lists, degenerate and reused blocks, huge announced lengths, 512 MiB length prefixes, broken length fields, empty size table, last_block_size > BLOCK, huge compressed sizes, block longer than declared, brotli large-window header asking for a 1 GiB ring buffer, tens of thousands of empty one-byte brotli streams in a row) and then re-wrapped by the format model's foreign writer through compression and VALID encryption for the reader's key; the first 3000 quick runs enumerate, on s0 without layers, every single bit flip and every cut of one small archive's stored bytes. Then an operation history that continues after errors: open, list, open+read each listed and each original name with seeded buffers, read after errors, hashes, linear extraction (all / subset), repair in both modes, layer-level seeks (also beyond the end) and reads on a stack that already failed, drop. Oracle per operation: returns Ok or Err - no panic (overflow checks on), the worker process survives (stack overflow, abort), at most 200*len+50000 seam calls, peak live heap above the start of the operation <= 48 MiB + 16*len(image); a single request >= 1 GiB aborts the worker and is reported. evaluations = operations judged; distinct_nontrivial = distinct (variant, layers, fault placement, mutation kinds, operation, outcome class) signatures.".into()
    }
    fn assumptions(&self) -> Vec<String> {
        vec![
            "anyone can encrypt to a recipient: well-encrypted hostile content is in scope".into(),
            "heap ceiling: fixed part sized from the code's own buffers (8 MiB repair buffer, brotli window, one chunk, one block) with margin, plus 16 bytes per input byte".into(),
        ]
    }
    fn runs(&self, tier: Tier) -> u64 {
        match tier {
            Tier::Quick => 3000 + 9000,
            Tier::Thorough => 3000 + 300_000,
        }
    }
    fn make(&self, seed: u64, run: u64, tier: Tier) -> Case {
        let mut rng = Rng::derive(seed, "C08", run, "gen");
        if (2800..3000).contains(&run) {
            // every hand-built hostile stream on four (variant, layers) combinations: stream kinds 0..9 with
            // 8 PRNG draws each for the edge-of-arithmetic kind, compressed-stream kinds 0..6
            let k = run - 2800;
            let combos: [(&str, u8); 4] = [("prod", 0), ("s1", 3), ("s0", 1), ("prodv", 1)];
            let ccombos: [(&str, u8); 4] = [("prod", 2), ("s1", 3), ("s0", 2), ("prodv", 3)];
            let (variant, layers, place, craft, mseed) = if k < 40 {
                (combos[(k / 10) as usize].0, combos[(k / 10) as usize].1, 3, k % 10, 5)
            } else if k < 68 {
                let j = k - 40;
                (ccombos[(j / 7) as usize].0, ccombos[(j / 7) as usize].1, 4, j % 7, 5)
            } else {
                // the arithmetic-edge kind again, with other draws of the derived values
                let j = k - 68;
                (combos[(j % 4) as usize].0, combos[(j % 4) as usize].1, 3, 8, 100 + j)
            };
            let hooks = variant != "prod";
            let cfg = ArcCfg { variant: variant.into(), layers, level: 3, recipients: usize::from(layers & 1 != 0), reader: 0, rng_seed: if hooks { 9 } else { 0 }, key_seed: 9 };
            let ops = vec![WOp::Add { name: Name::lit("a"), data: Data::Period { n: 40, p: 7 }, src: Src::exact() }, WOp::Finalize];
            let mut case = Case::new("C08", cfg, ops);
            case.params.insert("place".into(), place);
            case.params.insert("craft".into(), craft as i64);
            case.params.insert("mut_seed".into(), mseed as i64);
            case.params.insert("hist_seed".into(), 23 + k as i64);
            return case;
        }
        if run < 3000 {
            // systematic single faults on one small s0 archive without layers: bits, then cuts
            let cfg = ArcCfg { variant: "s0".into(), layers: 0, level: 0, recipients: 0, reader: 0, rng_seed: 3, key_seed: 3 };
            let ops = vec![WOp::Start { f: 0, name: Name::lit("a") }, WOp::Add { name: Name::lit("b"), data: Data::Period { n: 9, p: 5 }, src: Src::exact() }, WOp::Append { f: 0, data: Data::Period { n: 7, p: 3 }, src: Src::exact() }, WOp::End { f: 0 }, WOp::Finalize];
            let mut case = Case::new("C08", cfg, ops);
            case.params.insert("place".into(), 0);
            case.params.insert("sys".into(), run as i64);
            case.params.insert("hist_seed".into(), 17);
            return case;
        }
        let x = rng.below(100);
        let variant = match tier {
            Tier::Quick => match x {
                0..=49 => "s0",
                50..=93 => "s1",
                94..=97 => "prodv",
                _ => "prod",
            },
            Tier::Thorough => match x {
                0..=44 => "s0",
                45..=84 => "s1",
                85..=94 => "prodv",
                _ => "prod",
            },
        };
        let vc = consts_of(variant);
        let mut c = vc.model_consts();
        let big = vc.chunk > 1000;
        if big {
            c.block = 2 * c.chunk;
            c.repair_cache = 4 * c.chunk;
        }
        let cfg = gen_cfg(&mut rng, variant, vc.hooks);
        let total = match variant {
            "s0" => rng.range(0, 300) as usize,
            "s1" => rng.range(0, 1500) as usize,
            _ => rng.range(0, 300_000) as usize,
        };
        let o = GenOpts { max_files: 4, max_ops: 12, max_piece: total.max(1), max_total: total, interleave: rng.chance(1, 2), flushes: false, special_names: false, finalize: true, piece_scheds: false };
        let ops = gen_ops(&mut rng, &c, &o);
        let mut case = Case::new("C08", cfg, ops);
        // where the faults go: 0 stored image, 1 inner file-layer stream, 2 compressed stream, 3 crafted stream, 4 crafted compressed
        let place = *rng.pick(&[0i64, 0, 1, 1, 1, 2, 3, 3, 4]);
        case.params.insert("place".into(), place);
        case.params.insert("k".into(), rng.range(1, 3) as i64);
        case.params.insert("mut_seed".into(), (rng.u64() >> 1) as i64);
        case.params.insert("hist_seed".into(), (rng.u64() >> 1) as i64);
        case.params.insert("craft".into(), rng.below(10) as i64);
        case
    }
    fn exec(&self, case: &Case, ctx: &mut Ctx) -> Vec<Violation> {
        let mut v = Vec::new();
        let s = sut(&case.cfg.variant);
        let vc = s.consts();
        let par = refmla::Params { chunk: vc.chunk as usize, block: vc.block as usize };
        let sink = SimSink::new(&Sched::Full);
        let w = s.write(&case.cfg, &case.ops, sink.clone());
        if w.panic.is_some() || w.from_config_err.is_some() || w.results.iter().any(Result::is_err) {
            v.push(Violation::new("workload-write-failed", "write", format!("writing the workload failed: panic {:?}, from_config {:?}, first failed call {:?}", w.panic, w.from_config_err, w.results.iter().find(|r| r.is_err()))));
            return v;
        }
        let base = sink.data();
        let model = model_of(&case.ops);
        let hlen = header_len(&case.cfg);
        let place = case.param("place", 0);
        let mut mrng = Rng::new(case.param("mut_seed", 1) as u64);
        let derived = derived_values(vc.chunk, vc.block);
        let mut kinds: Vec<String> = Vec::new();
        let mut inner_len_hint = 0usize;
        // ---- build the hostile image
        let image: Vec<u8> = if let Some(h) = &case.image_hex {
            hex::decode(h).unwrap_or_default()
        } else if !case.faults.is_empty() {
            let mut img = base.clone();
            for f in &case.faults {
                img = apply_fault(&img, f, hlen, par.chunk, Some(&base));
                kinds.push(fault_kind(f).to_string());
            }
            img
        } else if let Some(sys) = case.params.get("sys") {
            let sys = *sys as usize;
            let nbits = base.len() * 8;
            let f = if sys < nbits { Fault::Flip { byte: sys / 8, bit: (sys % 8) as u8 } } else { Fault::Cut { n: (sys - nbits) % (base.len() + 1) } };
            kinds.push(fault_kind(&f).to_string());
            apply_fault(&base, &f, hlen, par.chunk, None)
        } else {
            let k = case.param("k", 1);
            let spec = || -> refmla::EncSpec {
                let mut r2 = Rng::new(case.cfg.rng_seed ^ 0x4242);
                let mut key = [0u8; 32];
                r2.fill(&mut key);
                let mut nonce = [0u8; 8];
                r2.fill(&mut nonce);
                let mut eph = [0u8; 32];
                r2.fill(&mut eph);
                refmla::EncSpec { key, nonce, eph_priv: eph, recipients: (0..case.cfg.recipients).map(|i| refmla::pub_of(&key_bytes(case.cfg.key_seed, i))).collect() }
            };
            let layers = case.cfg.layers & 3;
            match place {
                1 | 2 => match layout_of(&base, &case.cfg, par.chunk, par.block) {
                    Ok(lay) => {
                        if place == 1 || layers & 2 == 0 {
                            let mut st = lay.dec.stream.clone();
                            for _ in 0..k {
                                let fields = inner_fields(&st);
                                kinds.push(format!("inner:{}", mutate(&mut st, &fields, &mut mrng, &derived)));
                            }
                            inner_len_hint = st.len();
                            refmla::wrap(&st, layers, case.cfg.level, Some(&spec()), par)
                        } else {
                            let mut cs = lay.dec.enc_plain.clone();
                            for _ in 0..k {
                                let fields = comp_fields(&cs);
                                kinds.push(format!("comp:{}", mutate(&mut cs, &fields, &mut mrng, &derived)));
                            }
                            // re-wrap below the compression layer: header + (encrypted) mutated compressed stream
                            let sp = spec();
                            let mut img = refmla::encode_header(layers, if layers & 1 != 0 { Some(&sp) } else { None });
                            if layers & 1 != 0 {
                                img.extend(refmla::encrypt_stream(&sp.key, &sp.nonce, &cs, par.chunk));
                            } else {
                                img.extend(cs);
                            }
                            img
                        }
                    }
                    Err(_) => base.clone(),
                },
                3 => {
                    let (st, name) = crafted_stream(case.param("craft", 0) as u64, &mut mrng, if par.chunk > 1000 && layers == 0 { 100 } else if par.chunk > 1000 && layers == 1 { 4 } else { 1 }, &derived);
                    kinds.push(format!("crafted:{name}"));
                    inner_len_hint = st.len();
                    refmla::wrap(&st, layers, case.cfg.level, Some(&spec()), par)
                }
                4 => {
                    let plain = layout_of(&base, &case.cfg, par.chunk, par.block).map(|l| l.dec.stream).unwrap_or_default();
                    let (cs, name) = hostile_compressed(case.param("craft", 0) as u64 % 7, &plain, par, case.cfg.level, &mut mrng);
                    kinds.push(format!("crafted:{name}"));
                    let layers = layers | 2;
                    let sp = spec();
                    let mut img = refmla::encode_header(layers, if layers & 1 != 0 { Some(&sp) } else { None });
                    if layers & 1 != 0 {
                        img.extend(refmla::encrypt_stream(&sp.key, &sp.nonce, &cs, par.chunk));
                    } else {
                        img.extend(cs);
                    }
                    img
                }
                _ => {
                    let mut img = base.clone();
                    for _ in 0..k {
                        let len = img.len().max(1);
                        let f = match mrng.below(12) {
                            0 => Fault::Cut { n: mrng.usize_below(len + 1) },
                            1 | 2 => Fault::Flip { byte: mrng.usize_below(len), bit: mrng.below(8) as u8 },
                            3 => Fault::Set { byte: mrng.usize_below(len), val: *mrng.pick(&[0u8, 0xff, 0x7f, 0x80]) },
                            4 | 5 => {
                                // header / trailing length fields
                                let at = *mrng.pick(&[3usize, 7, 8, 41, hlen.saturating_sub(8), len.saturating_sub(4), len.saturating_sub(8), len.saturating_sub(20)]);
                                Fault::Field { at, len: *mrng.pick(&[1usize, 4, 8]), val: *mrng.pick(INTERESTING) }
                            }
                            6 => Fault::ChunkSwap { i: mrng.usize_below(4), j: mrng.usize_below(4) },
                            7 => Fault::ChunkDel { i: mrng.usize_below(4) },
                            8 => Fault::ChunkDup { i: mrng.usize_below(4) },
                            9 => Fault::DropTail { k: *mrng.pick(&[1usize, 4, 15, 16, 17, 20]) },
                            10 => Fault::Garbage { k: mrng.range(1, 64) as usize, seed: mrng.u64() },
                            _ => Fault::RawBytes { n: mrng.range(0, 200) as usize, seed: mrng.u64() },
                        };
                        kinds.push(format!("stored:{}", fault_kind(&f)));
                        img = apply_fault(&img, &f, hlen, par.chunk, Some(&base));
                    }
                    img
                }
            }
        };
        for k in &kinds {
            seams::fired(match k.split(':').next().unwrap_or("") {
                "stored" => "stored_image_fault",
                "inner" => "inner_stream_fault",
                "comp" => "compressed_stream_fault",
                "crafted" => "crafted_hostile_stream",
                _ => "stored_image_fault",
            });
        }
        let len = image.len();
        // effective input size: a compressed image stands for its decompressed content
        let inner_len = layout_of(&base, &case.cfg, par.chunk, par.block).map(|l| l.dec.stream.len()).unwrap_or(0);
        let eff_len = len.max(if case.cfg.comp() || place >= 3 { inner_len.max(inner_len_hint) } else { 0 });
        let img = Rc::new(image);
        let budget = 200 * eff_len as u64 + 50_000;
        let ceiling = (48usize << 20) + 16 * eff_len;
        let mut rcfg = ReadCfg::for_cfg(&case.cfg);
        rcfg.budget = budget;
        let mut hr = Rng::new(case.param("hist_seed", 1) as u64);
        if hr.chance(1, 8) {
            rcfg.error_at_read = Some(hr.below(40));
        }
        let kinds_s = kinds.join("+");
        let mut judge = |op: &str, panic: &Option<String>, budget_hit: bool, peak: usize, single: usize, outcome: &str, v: &mut Vec<Violation>, ctx: &mut Ctx| {
            ctx.eval();
            if let Some(p) = panic {
                v.push(Violation::new("hostile-panic", format!("{op}|{}", super::repair::panic_class(p)), format!("{op} on a hostile image ({len} bytes; {kinds_s}) panicked: {p}")));
            }
            if budget_hit {
                v.push(Violation::new("hostile-unbounded-loop", op.to_string(), format!("{op} on a hostile image ({len} bytes stored, {eff_len} effective; {kinds_s}) made more than {budget} calls to the source")));
            }
            if peak > ceiling {
                v.push(Violation::new("hostile-memory", op.to_string(), format!("{op} on a hostile image of {len} bytes ({kinds_s}): peak live heap {peak} bytes (largest single request {single}), ceiling {ceiling}")));
            }
            ctx.sig(format!("{}|{}|p{}|{}|{op}|{outcome}", case.cfg.variant, case.cfg.layer_name(), case.param("place", 0), kinds.iter().map(|k| k.as_str()).collect::<Vec<_>>().join("+")));
        };
        // ---- normal reader history, continuing after errors
        let mut names: Vec<String> = model.order.clone();
        names.push("a".into());
        names.push("intruder".into());
        let mut rops = vec![ROp::List];
        for n in names.iter().take(6) {
            rops.push(ROp::Open { name: n.clone() });
            rops.push(ROp::Read { n: hr.range(0, 70) as usize });
            rops.push(ROp::Read { n: 1 });
            rops.push(ROp::ReadAll { n: *hr.pick(&[1usize, 13, 4096]) });
            rops.push(ROp::Read { n: 9 });
            rops.push(ROp::Hash { name: n.clone() });
        }
        rops.push(ROp::List);
        let m = heap_mark();
        let out = s.read(img.clone(), &rcfg, &rops);
        let (peak, single) = m.measure();
        let mut listed: Vec<String> = Vec::new();
        for r in &out.results {
            if let RRes::Names(n) = r {
                listed = n.clone();
            }
        }
        let outcome = if out.open.is_err() { "open-err" } else if out.results.iter().any(RRes::is_err) { "some-err" } else { "all-ok" };
        judge("read-history", &out.panic, out.src.budget_exhausted, peak, single, outcome, &mut v, ctx);
        // names only the hostile listing knows
        let extra: Vec<String> = listed.iter().filter(|n| !names.contains(n)).take(4).cloned().collect();
        if !extra.is_empty() && out.panic.is_none() {
            let mut rops2 = Vec::new();
            for n in &extra {
                rops2.push(ROp::Open { name: n.clone() });
                rops2.push(ROp::ReadAll { n: 64 });
                rops2.push(ROp::Hash { name: n.clone() });
            }
            let m = heap_mark();
            let out2 = s.read(img.clone(), &rcfg, &rops2);
            let (peak, single) = m.measure();
            judge("read-listed-names", &out2.panic, out2.src.budget_exhausted, peak, single, if out2.results.iter().any(RRes::is_err) { "some-err" } else { "all-ok" }, &mut v, ctx);
        }
        // ---- linear extraction
        let subset: Vec<String> = if hr.chance(1, 2) { listed.iter().take(5).cloned().collect() } else { names.iter().take(3).cloned().collect() };
        let m = heap_mark();
        let lin = s.linear(img.clone(), &rcfg, &subset, &Sched::Full, None);
        let (peak, single) = m.measure();
        judge("linear-extract", &lin.panic, false, peak, single, if matches!(lin.result, Some(Ok(()))) { "ok" } else { "err" }, &mut v, ctx);
        // ---- repair, both modes
        let ocfg = ArcCfg { variant: case.cfg.variant.clone(), layers: 0, level: 0, recipients: 0, reader: 0, rng_seed: 0, key_seed: 0 };
        for auth in [true, false] {
            let m = heap_mark();
            let rep = s.repair(img.clone(), &rcfg, auth, &ocfg, &Sched::Full);
            let (peak, single) = m.measure();
            let outc = match (&rep.init, &rep.convert) {
                (Err(_), _) => "init-err".to_string(),
                (_, Some(Ok(st))) => st.stop.clone(),
                _ => "convert-err".to_string(),
            };
            // the output archive is allowed to be as large as the data recovered: measure against input + output
            let allowance = rep.out_image.len() * 3;
            judge(if auth { "repair-auth" } else { "repair-unauth" }, &rep.panic, rep.src.budget_exhausted, peak.saturating_sub(allowance), single, &outc, &mut v, ctx);
        }
        // ---- layer level: seeks (also out of range) and reads on a stack that may already have failed
        let depth = case.cfg.enc() as usize + case.cfg.comp() as usize;
        let mut lops = Vec::new();
        let ln = len as u64;
        for _ in 0..10 {
            lops.push(match hr.below(7) {
                0 => LOp::SeekStart { p: *hr.pick(&[0u64, 1, ln, ln + 1, ln * 2, 1 << 31, 1 << 33, u64::MAX / 2, u64::MAX]) },
                1 => LOp::SeekEndTo { p: *hr.pick(&[0u64, 1, ln.saturating_sub(4), ln, ln + 5]) },
                2 => LOp::SeekCurTo { p: hr.range(0, ln + 20) },
                3 => LOp::Pos,
                4 => LOp::SeekCur0,
                _ => LOp::Read { n: hr.range(0, 300) as usize },
            });
        }
        let m = heap_mark();
        let lo = s.layers(img.clone(), hr.range(0, depth as u64) as usize, &rcfg, ln, &lops);
        let (peak, single) = m.measure();
        judge("layer-history", &lo.panic, false, peak, single, if lo.build.is_err() { "build-err" } else { "built" }, &mut v, ctx);
        v
    }
}
