//! C03 Encrypted archives: any alteration is detected on read (stored-byte corruption).
use super::common::*;
use crate::model::*;
use crate::rng::Rng;
use crate::runner::{Case, Ctx, Fault, Prop, Tier, Violation};
use crate::seams::{self, Sched, SimSink};
use crate::sut::{consts_of, sut, ROp, RRes, ReadCfg};
use std::rc::Rc;

pub struct C03;

/// the fault list of one image: every bit on small images, windows + sample otherwise, all chunk edits
fn faults_for(case: &Case, image: &[u8], hlen: usize, chunk: usize, lay: Option<&Layout>, rng: &mut Rng) -> Vec<Fault> {
    if !case.faults.is_empty() {
        return case.faults.clone();
    }
    let len = image.len();
    let mut v = Vec::new();
    let full_limit = case.param("full_flip_limit", 700) as usize;
    if len <= full_limit {
        for byte in 0..len {
            for bit in 0..8 {
                v.push(Fault::Flip { byte, bit });
            }
        }
    } else {
        let w = case.param("window", 6) as usize;
        if let Some(l) = lay {
            let maxa = case.param("max_anchors", 30) as usize;
            let step = (l.anchors.len() / maxa.max(1)).max(1);
            for (i, a) in l.anchors.iter().enumerate() {
                if i % step != 0 {
                    continue;
                }
                for byte in a.saturating_sub(w)..(a + w).min(len) {
                    v.push(Fault::Flip { byte, bit: rng.below(8) as u8 });
                }
            }
        }
        for _ in 0..case.param("samples", 400) {
            v.push(Fault::Flip { byte: rng.usize_below(len), bit: rng.below(8) as u8 });
        }
        // the whole header, every bit
        for byte in 0..hlen.min(len) {
            for bit in 0..8 {
                v.push(Fault::Flip { byte, bit });
            }
        }
    }
    let nch = crate::refmla::chunk_ranges(len - hlen, chunk).len();
    let cap = case.param("max_chunks_edit", 8) as usize;
    let m = nch.min(cap);
    for i in 0..m {
        v.push(Fault::ChunkDup { i });
        v.push(Fault::ChunkDel { i });
        for j in 0..m {
            if i != j {
                if i < j {
                    v.push(Fault::ChunkSwap { i, j });
                }
                v.push(Fault::ChunkMove { i, j });
            }
            v.push(Fault::Splice { i, j });
        }
    }
    if case.param("far_chunks", 0) == 1 {
        // chunk edits between indices that differ by 256 (and other distances): counter bytes above the lowest
        for _ in 0..12 {
            let d = *rng.pick(&[256usize, 256, 255, 257, 128, 512]);
            if nch > d + 2 {
                let i = rng.usize_below(nch - d - 1);
                v.push(Fault::ChunkSwap { i, j: i + d });
                v.push(Fault::ChunkMove { i, j: i + d });
                v.push(Fault::ChunkMove { i: i + d, j: i });
            }
        }
    }
    // the last chunks too when there are many
    if nch > cap {
        v.push(Fault::ChunkDel { i: nch - 1 });
        v.push(Fault::ChunkSwap { i: nch - 2, j: nch - 1 });
        v.push(Fault::ChunkDup { i: nch - 1 });
        v.push(Fault::Splice { i: nch - 1, j: nch - 1 });
    }
    // whole fields blanked (00.. / FF..): every tag of the first and the last chunks, alone and together with an edit of
    // the payload it protects; the archive nonce and the first key slot of the header
    let ranges = crate::refmla::chunk_ranges(len - hlen, chunk);
    let mut picks: Vec<usize> = (0..ranges.len().min(cap)).collect();
    if ranges.len() > cap {
        picks.push(ranges.len() - 1);
    }
    for i in picks {
        let r = &ranges[i];
        let tag_at = hlen + r.start + r.payload;
        for val in [0u8, 0xFF] {
            v.push(Fault::Fill { at: tag_at, len: r.tag, val });
            if r.payload > 0 {
                for off in [0usize, rng.usize_below(r.payload), r.payload - 1] {
                    v.push(Fault::Multi { faults: vec![Fault::Fill { at: tag_at, len: r.tag, val }, Fault::Flip { byte: hlen + r.start + off, bit: rng.below(8) as u8 }] });
                }
                v.push(Fault::Multi { faults: vec![Fault::Fill { at: tag_at, len: r.tag, val }, Fault::Fill { at: hlen + r.start, len: r.payload, val }] });
            }
        }
    }
    // transplants between chunks of the same archive: the tag of chunk j on the payload of chunk i, the payload of
    // chunk j under the tag of chunk i (equal lengths only)
    let m2 = ranges.len().min(cap.min(5));
    for i in 0..m2 {
        for j in 0..m2 {
            if i != j {
                let (a, b) = (&ranges[i], &ranges[j]);
                if a.tag == b.tag && a.tag > 0 {
                    v.push(Fault::Copy { from: hlen + b.start + b.payload, to: hlen + a.start + a.payload, len: a.tag });
                }
                if a.payload == b.payload && a.payload > 0 {
                    v.push(Fault::Copy { from: hlen + b.start, to: hlen + a.start, len: a.payload });
                }
            }
        }
    }
    if ranges.len() > 2 {
        let (l, p) = (&ranges[ranges.len() - 1], &ranges[ranges.len() - 2]);
        if l.tag == p.tag && l.tag > 0 {
            v.push(Fault::Copy { from: hlen + p.start + p.payload, to: hlen + l.start + l.payload, len: l.tag });
            v.push(Fault::Copy { from: hlen + l.start + l.payload, to: hlen + p.start + p.payload, len: l.tag });
        }
    }
    for (at, n) in [(hlen.saturating_sub(8), 8usize), (17, 32), (17 + 32, 48)] {
        if at + n <= hlen {
            v.push(Fault::Fill { at, len: n, val: 0 });
            v.push(Fault::Fill { at, len: n, val: 0xFF });
        }
    }
    for k in [1usize, 15, 16, 17, chunk, chunk + 16] {
        v.push(Fault::DropTail { k });
        v.push(Fault::Garbage { k, seed: rng.u64() });
    }
    for _ in 0..10 {
        v.push(Fault::Cut { n: rng.range(0, len as u64) as usize });
        v.push(Fault::Set { byte: rng.usize_below(len), val: *rng.pick(&[0u8, 0xFF, 0x7F, 0x80]) });
    }
    v
}

impl Prop for C03 {
    fn id(&self) -> &'static str {
        "C03"
    }
    fn level(&self) -> &'static str {
        "fault_enumeration"
    }
    fn rule(&self) -> String {
        "run = seeded valid writer history with the encryption layer (E or C+E, 1..4 recipients) written to the simulated sink; stored-byte faults between write and read: EVERY single-bit flip of EVERY byte on images up to 700 bytes (s0, most s1), otherwise every bit of the header, windows around every anchor of the layout map and a seeded sample; all chunk-level edits for the first 8 chunks (swap every pair, move every ordered pair, duplicate, delete, splice chunk j of a second archive built from the same ops with its own fresh key and nonce at every index i), whole fields blanked to 00.. or FF.. (each tag of those chunks alone and TOGETHER with a flip in / a blanking of the payload it protects - compound faults -, the archive nonce, the first key slot), FORGERIES built with the archive key and then invalidated (a payload byte changed, the chunk sealed again with a valid tag, then the first / second half, the first / last four bytes, one byte or one bit of that tag damaged: a conforming AES-GCM rejects all of them), transplants (the tag of chunk j on chunk i, the payload of chunk j under the tag of chunk i, among the first five chunks and the last two), tail drops/garbage of 1,15,16,17,CHUNK,CHUNK+16 bytes, seeded cuts and byte substitutions. Each altered image is opened with the normal reader through the simulated source and a seeded read history is played (list, every file in seeded order with seeded buffer sizes, partial reads, abandon). Oracle: every listed name is an original name; every Ok read returns exactly the original bytes at the cursor; a read that reaches end-of-file with Ok has delivered the whole original file; the unaltered image opens and reads back. Errors are always accepted. evaluations = altered images judged; distinct_nontrivial = distinct (variant, layers, fault kind, region class of the fault, outcome class) signatures.".into()
    }
    fn assumptions(&self) -> Vec<String> {
        vec![
            "a VALID re-encryption under the archive key is not an alteration the format can detect (no sender authentication; well-encrypted hostile content is C08); forgeries built with the key are used only after their tag was damaged".into(),
            "two archives never share key and nonce (a chunk spliced at the same index under a reused nonce is indistinguishable by design)".into(),
            "hash and size fields are not named by the property and are only counted, not judged".into(),
        ]
    }
    fn runs(&self, tier: Tier) -> u64 {
        match tier {
            Tier::Quick => 320,
            Tier::Thorough => 10_000,
        }
    }
    fn make(&self, seed: u64, run: u64, tier: Tier) -> Case {
        let mut rng = Rng::derive(seed, "C03", run, "gen");
        if run == 0 {
            // pinned reproduction of the known finding 'authentic prefix on a chunk edge' (found by the thorough tier,
            // seed 1 run 7971): with the last chunk dropped, the tail of the remaining plaintext - part of the real index -
            // parses as a shorter index that lists a file named ""
            let cfg = ArcCfg { variant: "s0".into(), layers: L_ENC, level: 5, recipients: 1, reader: 0, rng_seed: 7831561764402447833, key_seed: 11754808906616812324 };
            let ex = Src::exact;
            let ops = vec![
                WOp::Start { f: 0, name: Name::lit("0 with space") },
                WOp::End { f: 0 },
                WOp::Start { f: 1, name: Name::lit("ünï-çødé-1-файл") },
                WOp::Start { f: 2, name: Name::lit("f2") },
                WOp::Append { f: 1, data: Data::Zeros { n: 47 }, src: ex() },
                WOp::Append { f: 1, data: Data::Zeros { n: 24 }, src: ex() },
                WOp::End { f: 2 },
                WOp::End { f: 1 },
                WOp::Finalize,
            ];
            let mut case = Case::new("C03", cfg, ops);
            case.faults = vec![Fault::ChunkDel { i: 15 }];
            case.params.insert("hist_seed".into(), 3909571891976824333);
            return case;
        }
        let x = rng.below(100);
        let variant = match tier {
            Tier::Quick => match x {
                0..=59 => "s0",
                60..=96 => "s1",
                _ => "prodv",
            },
            Tier::Thorough => match x {
                0..=49 => "s0",
                50..=89 => "s1",
                90..=97 => "prodv",
                _ => "prod",
            },
        };
        let vc = consts_of(variant);
        let mut c = vc.model_consts();
        let big = vc.chunk > 1000;
        if big {
            c.block = 2 * c.chunk;
            c.repair_cache = 4 * c.chunk;
        }
        let mut cfg = gen_cfg(&mut rng, variant, vc.hooks);
        cfg.layers |= L_ENC;
        if cfg.recipients == 0 {
            cfg.recipients = rng.range(1, 3) as usize;
            cfg.reader = rng.usize_below(cfg.recipients);
        }
        let many = variant != "prodv" && variant != "prod" && rng.chance(1, 20);
        let total = match variant {
            _ if many => 300 * c.chunk + rng.usize_below(100 * c.chunk),
            "s0" => rng.range(20, 260) as usize,
            "s1" => rng.range(60, 900) as usize,
            // production constants: half of the archives fit in ONE chunk, the others span a few
            _ => if rng.chance(1, 2) { rng.range(0, 3000) as usize } else { 3 * c.chunk + 100 },
        };
        let o = GenOpts { max_files: 3, max_ops: 10, max_piece: total, max_total: total, interleave: rng.chance(1, 2), flushes: false, special_names: false, finalize: true, piece_scheds: false };
        let mut ops = gen_ops(&mut rng, &c, &o);
        if many {
            // several hundred chunks: positions whose index differs only in the higher counter bytes
            cfg.layers = L_ENC;
            ops = vec![WOp::Add { name: Name::lit("big"), data: Data::Rand { n: total, seed: rng.u64() }, src: Src::exact() }, WOp::Add { name: Name::lit("small"), data: Data::Text { n: 50, seed: 1 }, src: Src::exact() }, WOp::Finalize];
        }
        let mut case = Case::new("C03", cfg, ops);
        if many {
            case.params.insert("far_chunks".into(), 1);
            case.params.insert("samples".into(), 200);
            case.params.insert("max_anchors".into(), 4);
        }
        case.params.insert("hist_seed".into(), (rng.u64() >> 1) as i64);
        if big {
            case.params.insert("samples".into(), 40);
            case.params.insert("max_anchors".into(), 8);
            case.params.insert("max_chunks_edit".into(), 3);
        }
        case
    }
    fn exec(&self, case: &Case, ctx: &mut Ctx) -> Vec<Violation> {
        let mut v = Vec::new();
        let s = sut(&case.cfg.variant);
        let vc = s.consts();
        let chunk = vc.chunk as usize;
        let sink = SimSink::new(&Sched::Full);
        let w = s.write(&case.cfg, &case.ops, sink.clone());
        if w.panic.is_some() || w.from_config_err.is_some() || w.results.iter().any(Result::is_err) {
            v.push(Violation::new("workload-write-failed", "write", format!("writing the workload failed: panic {:?}, from_config {:?}, first failed call {:?}", w.panic, w.from_config_err, w.results.iter().find(|r| r.is_err()))));
            return v;
        }
        let image = sink.data();
        // second archive: same ops, own fresh key and nonce
        let mut cfg2 = case.cfg.clone();
        cfg2.rng_seed = case.cfg.rng_seed.wrapping_mul(3).wrapping_add(0x1234_5671) | 1;
        let sink2 = SimSink::new(&Sched::Full);
        let _ = s.write(&cfg2, &case.ops, sink2.clone());
        let other = sink2.data();
        let model = model_of(&case.ops);
        let hlen = header_len(&case.cfg);
        let lay = layout_of(&image, &case.cfg, chunk, vc.block as usize).ok();
        let rcfg = ReadCfg::for_cfg(&case.cfg);
        // unaltered image always opens
        v.extend(check_readback(s, &Rc::new(image.clone()), &rcfg, &model, 4096, ctx, "unaltered"));
        if !v.is_empty() {
            return v;
        }
        // read history
        let mut hr = Rng::new(case.param("hist_seed", 1) as u64);
        let mut names: Vec<String> = model.order.clone();
        // seeded order
        for i in (1..names.len()).rev() {
            names.swap(i, hr.usize_below(i + 1));
        }
        let mut rops = vec![ROp::List];
        for n in &names {
            rops.push(ROp::Open { name: n.clone() });
            match hr.below(3) {
                0 => rops.push(ROp::ReadAll { n: *hr.pick(&[1usize, 7, 64, 4096]) }),
                1 => {
                    for _ in 0..hr.range(1, 4) {
                        rops.push(ROp::Read { n: hr.range(0, 50) as usize });
                    }
                }
                _ => {
                    rops.push(ROp::Read { n: hr.range(1, 30) as usize });
                    rops.push(ROp::ReadAll { n: 33 });
                }
            }
            if hr.chance(1, 3) {
                rops.push(ROp::Hash { name: n.clone() });
            }
        }
        rops.push(ROp::List);
        let mut frng = Rng::new(case.param("hist_seed", 1) as u64 ^ 0xABCD);
        let mut faults = faults_for(case, &image, hlen, chunk, lay.as_ref(), &mut frng);
        if case.faults.is_empty() {
            // forgeries that only someone holding the archive key can build, made INVALID on purpose: a payload byte is
            // changed, the chunk is sealed again under the same key, nonce and index (a valid tag for the new payload), and
            // then part of that tag is damaged - any conforming AES-GCM rejects the chunk; a reader that compares only part
            // of the tag accepts it. Expressed as plain byte substitutions, so that replay needs no key.
            if let Some((key, nonce)) = w.enc_params {
                let ranges = crate::refmla::chunk_ranges(image.len() - hlen, chunk);
                let mut picks: Vec<usize> = (0..ranges.len().min(2)).collect();
                if ranges.len() > 2 {
                    picks.push(ranges.len() - 1);
                }
                for i in picks {
                    let r = &ranges[i];
                    if r.payload == 0 || r.tag != 16 {
                        continue;
                    }
                    let at = hlen + r.start;
                    let mut plain = crate::refmla::ctr_chunk(&key, &nonce, i as u32, &image[at..at + r.payload]);
                    let off = frng.usize_below(r.payload);
                    plain[off] ^= 0x20;
                    let (ct, tag) = crate::refmla::seal_chunk(&key, &nonce, i as u32, &plain);
                    // which tag bytes are damaged: the first half, the second half, the first / last 4, one byte, one bit
                    let damages: Vec<Vec<(usize, u8)>> = vec![
                        (0..8).map(|k| (k, 0xFF)).collect(),
                        (8..16).map(|k| (k, 0xFF)).collect(),
                        (0..4).map(|k| (k, 0xFF)).collect(),
                        (12..16).map(|k| (k, 0xFF)).collect(),
                        vec![(frng.usize_below(16), 0xFF)],
                        vec![(0, 0x01)],
                        vec![(15, 0x80)],
                        vec![(7, 0x01)],
                        vec![(8, 0x01)],
                    ];
                    for d in damages {
                        let mut fs = vec![Fault::Set { byte: at + off, val: ct[off] }];
                        let mut t = tag;
                        for (k, x) in d {
                            t[k] ^= x;
                        }
                        for k in 0..16 {
                            fs.push(Fault::Set { byte: at + r.payload + k, val: t[k] });
                        }
                        faults.push(Fault::Multi { faults: fs });
                    }
                }
            }
        }
        for f in &faults {
            let altered = apply_fault(&image, f, hlen, chunk, Some(&other));
            if altered == image {
                continue;
            }
            seams::fired(fault_kind(f));
            // an AUTHENTIC PREFIX ending on a chunk edge (last chunks dropped): every remaining chunk verifies and format
            // v1 has no authenticated end, so the reader cannot tell it from a complete stream (known finding, DESIGN 12)
            // (also when at most 16 stray bytes follow the edge: a tag's worth with no ciphertext byte; seek(End) maps no plaintext
            // position into them, so they are never read)
            let on_edge = altered.len() >= hlen && altered.len() < image.len() && image.starts_with(&altered) && (altered.len() - hlen) % (chunk + 16) <= 16;
            let fk: String = if on_edge { format!("authentic-prefix-on-chunk-edge|{}", fault_kind(f)) } else { fault_kind(f).to_string() };
            let out = s.read(Rc::new(altered), &rcfg, &rops);
            ctx.eval();
            let region = match f {
                Fault::Flip { byte, .. } | Fault::Set { byte, .. } => lay.as_ref().map(|l| l.class_at(*byte, image.len())).unwrap_or("?"),
                _ => "-",
            };
            let mut outcome = "open-err";
            if out.panic.is_some() {
                ctx.probe("panic-on-altered (C08's clause)");
                outcome = "panic";
            } else if out.open.is_ok() {
                outcome = "all-ok";
                // walk the results with a cursor model
                let mut cur: Option<(&String, usize)> = None;
                let mut ri = out.results.iter();
                for op in &rops {
                    let Some(res) = ri.next() else { break };
                    if res.is_err() {
                        outcome = "some-err";
                    }
                    match (op, res) {
                        (ROp::List, RRes::Names(ns)) => {
                            for n in ns {
                                if !model.files.contains_key(n) {
                                    v.push(Violation::new("altered-lists-foreign-name", fk.clone(), format!("{f:?}: listing contains {:?}, not an original name", n.chars().take(20).collect::<String>())).with_fault(f.clone()));
                                }
                            }
                        }
                        (ROp::Open { name }, RRes::Opened { size }) => {
                            cur = Some((name, 0));
                            if model.files.get(name).map(|b| b.len() as u64) != Some(*size) {
                                ctx.probe("altered-size-field-differs (not judged)");
                            }
                        }
                        (ROp::Open { .. }, _) => cur = None,
                        (ROp::Read { .. }, RRes::Bytes(b)) => {
                            if let Some((name, pos)) = cur.as_mut() {
                                let orig = &model.files[*name];
                                let end = (*pos + b.len()).min(orig.len());
                                if *pos + b.len() > orig.len() || orig[*pos..end] != b[..] {
                                    v.push(Violation::new("altered-wrong-bytes", fk.clone(), format!("{f:?} ({region}): read of file {:?} at {} returned {} bytes that differ from the original", name.chars().take(16).collect::<String>(), pos, b.len())).with_fault(f.clone()));
                                }
                                *pos += b.len();
                            }
                        }
                        (ROp::ReadAll { .. }, RRes::Bytes(b)) => {
                            if let Some((name, pos)) = cur.as_mut() {
                                let orig = &model.files[*name];
                                if *pos > orig.len() || orig[*pos..] != b[..] {
                                    let kind = if orig[(*pos).min(orig.len())..].starts_with(b) { "altered-silent-shortening" } else { "altered-wrong-bytes" };
                                    v.push(Violation::new(kind, fk.clone(), format!("{f:?} ({region}): reading file {:?} from {} to its end returned Ok with {} bytes, the original has {} left", name.chars().take(16).collect::<String>(), pos, b.len(), orig.len().saturating_sub(*pos))).with_fault(f.clone()));
                                }
                                *pos = orig.len();
                            }
                        }
                        (ROp::Hash { name }, RRes::Hash(h)) => {
                            if model.files.get(name).map(|b| sha256(b)) != Some(*h) {
                                ctx.probe("altered-hash-field-differs (not judged)");
                            }
                        }
                        _ => {}
                    }
                }
            }
            ctx.sig(format!("{}|{}|{}|{}|{}", case.cfg.variant, case.cfg.layer_name(), fault_kind(f), region, outcome));
            if v.len() > 20 {
                break;
            }
        }
        v
    }
}
