//! C06 Archives conform to format v1 as documented, in both directions; the
//! incremental AES-GCM core equals the standard for every split into calls.
use super::common::*;
use crate::model::*;
use crate::refmla::{self, Params};
use crate::rng::Rng;
use crate::runner::{Case, Ctx, Prop, Tier, Violation};
use crate::seams::{Sched, SimSink};
use crate::sut::{consts_of, sut, ReadCfg};
use aes_gcm::aead::{AeadInPlace, KeyInit};
use std::rc::Rc;

pub struct C06;

const M_FWD: i64 = 0;
const M_REV: i64 = 1;
const M_GCM: i64 = 2;
const M_SAMPLE: i64 = 3;

fn params_for(variant: &str) -> Params {
    if variant == "prod" || variant == "prodv" {
        // the documented constants, hard-coded: never read from the library
        Params::documented()
    } else {
        let vc = consts_of(variant);
        Params { chunk: vc.chunk as usize, block: vc.block as usize }
    }
}

fn reference_gcm(key: &[u8; 32], nonce: &[u8; 12], aad: &[u8], msg: &[u8]) -> (Vec<u8>, [u8; 16]) {
    let c = aes_gcm::Aes256Gcm::new(key.into());
    let mut buf = msg.to_vec();
    let tag = c.encrypt_in_place_detached(nonce.into(), aad, &mut buf).expect("gcm");
    (buf, tag.into())
}

impl Prop for C06 {
    fn id(&self) -> &'static str {
        "C06"
    }
    fn level(&self) -> &'static str {
        "exploration"
    }
    fn rule(&self) -> String {
        "four kinds of runs. forward: a seeded valid writer history (as C01; half of the runs on the unmodified `prod` build or `prodv` with sizes around the 128 KiB chunk and 4 MiB block edges) is written by the library and decoded by the independent format model `refmla` (written from FORMAT.md with aes-gcm/hkdf/x25519-dalek/brotli; documented constants hard-coded for prod/prodv): every chunk tag, block size, hash, end marker position and index entry is verified and the files must equal the abstract model. reverse: the model's foreign writer builds an archive (all layer sets, levels, 1..4 recipients, seeded interleaving) that the library must read back identically (listing, size, bytes, hash). gcm: seeded (key, nonce, aad, message): every 2-split up to 80 bytes, seeded k-splits (empty pieces included) up to 1 MiB through the library's incremental AES-GCM vs the aes-gcm crate; decrypt is the inverse with the same tag. sample: samples/archive_v1.mla is decoded by the model and by the library with the documented key. distinct_nontrivial = distinct (kind, variant, layers, #chunks bucket, #blocks bucket, interleaved, recipients) / (gcm length class, #cuts) signatures.".into()
    }
    fn assumptions(&self) -> Vec<String> {
        vec![
            "refmla is an independent reading of FORMAT.md; FileInfo.offsets is taken as 'offset of the first block of each continuous run of the file's blocks' (the struct comment), not the per-block list of the worked example".into(),
            "the aes-gcm, hkdf, x25519-dalek, brotli and sha2 crates implement their standards".into(),
            "no fault or schedule dimension: the simulator is used as generator of histories and as the place where the second implementation runs".into(),
        ]
    }
    fn runs(&self, tier: Tier) -> u64 {
        match tier {
            Tier::Quick => 5000,
            Tier::Thorough => 40_000,
        }
    }
    fn make(&self, seed: u64, run: u64, tier: Tier) -> Case {
        let mut rng = Rng::derive(seed, "C06", run, "gen");
        if run == 1 || run == 2 || (run > 2 && run % 97 == 0) {
            // chunk-counter coverage: archives of several hundred chunks (every run of this kind) and, for run 1,
            // of more than 65536 chunks on s0 (32-byte chunks), so that every byte of the big-endian counter moves
            let variant = if run % 2 == 1 { "s0" } else { "s1" };
            let vc = consts_of(variant);
            let chunks = if run == 1 { 66_000 } else { rng.range(260, 700) as usize };
            let layers = if run == 1 || rng.chance(2, 3) { L_ENC } else { L_ENC | L_COMP };
            let cfg = ArcCfg { variant: variant.into(), layers, level: 1, recipients: 1, reader: 0, rng_seed: run + 77, key_seed: run + 5 };
            let n = chunks * vc.chunk as usize + rng.usize_below(vc.chunk as usize);
            let ops = vec![WOp::Add { name: Name::lit("big"), data: Data::Rand { n, seed: run }, src: Src::exact() }, WOp::Add { name: Name::lit("tail"), data: Data::Text { n: 40, seed: 3 }, src: Src::exact() }, WOp::Finalize];
            let mut case = Case::new("C06", cfg, ops);
            case.params.insert("mode".into(), if run % 3 == 0 { M_REV } else { M_FWD });
            case.params.insert("plan_seed".into(), 9);
            return case;
        }
        let mode = if run == 0 { M_SAMPLE } else { *rng.pick(&[M_FWD, M_FWD, M_FWD, M_REV, M_REV, M_GCM]) };
        let variant = if mode == M_GCM || mode == M_SAMPLE {
            "prod"
        } else {
            let heavy = match tier {
                Tier::Quick => 12,
                Tier::Thorough => 30,
            };
            let x = rng.below(100);
            if x < heavy / 2 {
                "prod"
            } else if x < heavy {
                "prodv"
            } else if x < heavy + 40 {
                "s0"
            } else {
                "s1"
            }
        };
        let vc = consts_of(variant);
        let mut c = vc.model_consts();
        let big = vc.chunk > 1000;
        if big && rng.chance(2, 3) {
            c.block = 2 * c.chunk;
            c.repair_cache = 4 * c.chunk;
        }
        let cfg = gen_cfg(&mut rng, variant, vc.hooks);
        let mut case = match mode {
            M_FWD => {
                let o = GenOpts { max_files: 5, max_ops: if big { 12 } else { 30 }, max_piece: 2 * c.block + 100, max_total: if big { 3 * c.block } else { 10 * c.block }, interleave: rng.chance(2, 3), flushes: rng.chance(1, 4), special_names: true, finalize: true, piece_scheds: false };
                let mut ops = gen_ops(&mut rng, &c, &o);
                let mut cfg = cfg;
                if big && rng.chance(1, 2) {
                    // stream handed to the first layer solved onto a documented 4 MiB / 128 KiB edge
                    if cfg.comp() {
                        cfg.level = cfg.level.min(5);
                        align_stream(&mut ops, 4 * 1024 * 1024, *rng.pick(&[0usize, 0, 1, 4 * 1024 * 1024 - 1]));
                    } else if cfg.enc() {
                        align_stream(&mut ops, 128 * 1024, *rng.pick(&[0usize, 0, 1, 16, 128 * 1024 - 1]));
                    }
                }
                maybe_many_recipients(&mut rng, &mut cfg, 15);
                Case::new("C06", cfg, ops)
            }
            M_REV => {
                let nf = rng.range(0, 5) as usize;
                let mut ops = Vec::new();
                let mut total = 0;
                for i in 0..nf {
                    let n = gen_size(&mut rng, &c, (if big { 3 * c.block } else { 10 * c.block }).saturating_sub(total));
                    total += n;
                    ops.push(WOp::Add { name: gen_name(&mut rng, i), data: Data::make(&mut rng, n), src: Src::exact() });
                }
                let mut cfg = cfg;
                let mut align = -1i64;
                if big && (cfg.comp() || cfg.enc()) && rng.chance(1, 2) {
                    cfg.level = cfg.level.min(5);
                    align = *rng.pick(&[0i64, 0, 1, -2]);
                    if align == -2 {
                        align = if cfg.comp() { 4 * 1024 * 1024 - 1 } else { 128 * 1024 - 1 };
                    }
                }
                maybe_many_recipients(&mut rng, &mut cfg, 15);
                let mut k = Case::new("C06", cfg, ops);
                k.params.insert("plan_seed".into(), (rng.u64() >> 1) as i64);
                if align >= 0 {
                    k.params.insert("align".into(), align);
                }
                k
            }
            M_GCM => {
                let mut k = Case::new("C06", cfg, vec![]);
                let len = match rng.below(6) {
                    0 => rng.range(0, 80),
                    1 => rng.range(0, 80),
                    2 => *rng.pick(&[15u64, 16, 17, 31, 32, 33, 4095, 4096, 4097]),
                    3 => rng.range(0, 5000),
                    4 => rng.range(0, 200_000),
                    _ => rng.range(0, if tier == Tier::Thorough { 1 << 20 } else { 1 << 17 }),
                };
                k.params.insert("msg_len".into(), len as i64);
                k.params.insert("aad_len".into(), *rng.pick(&[0i64, 0, 1, 13, 16, 40]));
                k.params.insert("gcm_seed".into(), (rng.u64() >> 1) as i64);
                k.params.insert("cuts".into(), rng.range(0, 12) as i64);
                k
            }
            _ => Case::new("C06", cfg, vec![]),
        };
        case.params.insert("mode".into(), mode);
        case
    }
    fn exec(&self, case: &Case, ctx: &mut Ctx) -> Vec<Violation> {
        let mut v = Vec::new();
        let mode = case.param("mode", M_FWD);
        let s = sut(&case.cfg.variant);
        let par = params_for(&case.cfg.variant);
        match mode {
            M_FWD => {
                let sink = SimSink::new(&Sched::Full);
                let w = s.write(&case.cfg, &case.ops, sink.clone());
                if w.panic.is_some() || w.from_config_err.is_some() || w.results.iter().any(Result::is_err) {
                    v.push(Violation::new("workload-write-failed", "write", format!("writing the workload failed: panic {:?}, from_config {:?}, first failed call {:?}", w.panic, w.from_config_err, w.results.iter().find(|r| r.is_err()))));
                    return v;
                }
                let image = sink.data();
                let model = model_of(&case.ops);
                let key = key_bytes(case.cfg.key_seed, case.cfg.reader);
                ctx.eval();
                match refmla::decode(&image, if case.cfg.enc() { Some(&key) } else { None }, par) {
                    Err(e) => v.push(Violation::new("fwd-undecodable", "decode", format!("the independent decoder rejects the library's archive ({} bytes, {}): {e}", image.len(), case.cfg.layer_name()))),
                    Ok(d) => {
                        if d.files != model.files {
                            let bad: Vec<String> = model.files.iter().filter(|(k, o)| d.files.get(*k) != Some(*o)).map(|(k, _)| k.chars().take(16).collect()).collect();
                            v.push(Violation::new("fwd-files-differ", "decode", format!("independent decoder yields other files than were written: {} vs {} files, differing {:?}", d.files.len(), model.files.len(), bad)));
                        }
                        if case.cfg.enc() {
                            // every other recipient can unwrap the same key
                            let eh = d.header.enc.as_ref().unwrap();
                            for i in 0..case.cfg.recipients {
                                ctx.eval();
                                if refmla::unwrap_key(eh, &key_bytes(case.cfg.key_seed, i)) != d.key {
                                    v.push(Violation::new("fwd-recipient", "decode", format!("recipient {i} of {} cannot unwrap the archive key by the documented scheme", case.cfg.recipients)));
                                }
                            }
                            if let (Some(k), Some((lk, ln))) = (d.key, w.enc_params) {
                                if k != lk || eh.nonce != ln {
                                    v.push(Violation::new("fwd-key", "decode", "key/nonce recovered by the model differ from the writer's".to_string()));
                                }
                            }
                        }
                        let inter = d.index.entries.iter().any(|e| e.offsets.len() > 2);
                        ctx.sig(format!("fwd|{}|{}|ch{}|bl{}|i{}|r{}|f{}", case.cfg.variant, case.cfg.layer_name(), if d.chunks.len() > 65536 { 65537 } else if d.chunks.len() > 256 { 257 } else { d.chunks.len().min(5) }, d.comp.as_ref().map(|c| c.blocks.len().min(4)).unwrap_or(0), inter, case.cfg.recipients, d.files.len().min(3)));
                    }
                }
            }
            M_REV => {
                let files: Vec<(String, Vec<u8>)> = case.ops.iter().filter_map(|o| if let WOp::Add { name, data, .. } = o { Some((name.string(), data.bytes())) } else { None }).collect();
                // names must be unique for a well-formed archive
                let mut seen = std::collections::BTreeSet::new();
                let files: Vec<(String, Vec<u8>)> = files.into_iter().filter(|(n, _)| seen.insert(n.clone())).collect();
                let mut prng = Rng::new(case.param("plan_seed", 1) as u64);
                let mut plan = Vec::new();
                let vc = s.consts();
                let steps = prng.range(0, 12);
                for _ in 0..steps {
                    if files.is_empty() {
                        break;
                    }
                    plan.push((prng.usize_below(files.len()), gen_size(&mut prng, &vc.model_consts(), 1 << 22).max(1)));
                }
                let mut files = files;
                // choices the description leaves to the writer: file ids need only be unique (not small, not sequential);
                // the index lists the offset of every block of a file (FORMAT.md's example) or of each run's first block
                let ids: Vec<u64> = match prng.below(3) {
                    0 => (0..files.len() as u64).collect(),
                    1 => (0..files.len() as u64).map(|i| (1u64 << 32) + 7 + i * 0x1_0000_0001).collect(),
                    _ => (0..files.len() as u64).map(|i| u64::MAX - i * 3).collect(),
                };
                let every_block = case.param("every_block", i64::from(prng.chance(1, 3))) == 1;
                if ids.first().is_some_and(|i| *i != 0) {
                    crate::seams::fired("foreign_archive_with_large_ids");
                }
                if every_block {
                    crate::seams::fired("foreign_index_lists_every_block");
                }
                let empty_blocks = case.param("empty_blocks", i64::from(prng.chance(1, 4))) == 1;
                let close_full = prng.chance(1, 2);
                if empty_blocks {
                    crate::seams::fired("foreign_archive_with_empty_content_blocks");
                }
                let mut stream = refmla::well_formed_stream_full(&files, &plan, &ids, every_block, empty_blocks);
                let align = case.param("align", -1);
                if align >= 0 && !files.is_empty() {
                    // grow the last file so that the stream ends exactly on / next to a documented edge
                    let m = if case.cfg.comp() { par.block } else { par.chunk };
                    let d = ((align as usize) % m + m - stream.len() % m) % m;
                    let last = files.len() - 1;
                    let extra = Data::Rand { n: d, seed: case.param("plan_seed", 1) as u64 ^ 0xA11 }.bytes();
                    files[last].1.extend_from_slice(&extra);
                    stream = refmla::well_formed_stream_full(&files, &plan, &ids, every_block, empty_blocks);
                }
                let mut r2 = Rng::new(case.cfg.rng_seed ^ 0x5555);
                let mut key = [0u8; 32];
                r2.fill(&mut key);
                let mut nonce = [0u8; 8];
                r2.fill(&mut nonce);
                let mut eph = [0u8; 32];
                r2.fill(&mut eph);
                let spec = refmla::EncSpec { key, nonce, eph_priv: eph, recipients: (0..case.cfg.recipients).map(|i| refmla::pub_of(&key_bytes(case.cfg.key_seed, i))).collect() };
                if close_full && case.cfg.comp() && !stream.is_empty() && stream.len() % par.block == 0 {
                    crate::seams::fired("foreign_archive_ends_with_an_empty_compressed_block");
                }
                let image = refmla::wrap_opts(&stream, case.cfg.layers & 3, case.cfg.level, Some(&spec), par, close_full);
                let mut model = Model::default();
                for (n, d) in &files {
                    model.order.push(n.clone());
                    model.files.insert(n.clone(), d.clone());
                }
                let rcfg = ReadCfg::for_cfg(&case.cfg);
                let vs = check_readback(s, &Rc::new(image.clone()), &rcfg, &model, 4096, ctx, "rev");
                v.extend(vs);
                let inter = plan.windows(2).any(|w| w[0].0 != w[1].0);
                ctx.sig(format!("rev|{}|{}|ch{}|i{}|r{}|f{}|{}", case.cfg.variant, case.cfg.layer_name(), (image.len() / (par.chunk + 16)).min(5), inter, case.cfg.recipients, files.len().min(3), align_class(stream.len(), par.chunk)));
            }
            M_GCM => {
                let mut r = Rng::new(case.param("gcm_seed", 1) as u64);
                let mut key = [0u8; 32];
                r.fill(&mut key);
                let mut nonce = [0u8; 12];
                r.fill(&mut nonce);
                let aad = r.bytes(case.param("aad_len", 0) as usize);
                let msg = r.bytes(case.param("msg_len", 0) as usize);
                let (rct, rtag) = reference_gcm(&key, &nonce, &aad, &msg);
                let mut splits: Vec<Vec<usize>> = Vec::new();
                if msg.len() <= 80 {
                    for a in 0..=msg.len() {
                        splits.push(vec![a]);
                    }
                }
                let ncuts = case.param("cuts", 0) as usize;
                for _ in 0..4 {
                    let mut c: Vec<usize> = (0..ncuts).map(|_| r.range(0, msg.len() as u64) as usize).collect();
                    c.sort();
                    splits.push(c);
                }
                splits.push(vec![]);
                for cuts in &splits {
                    ctx.eval();
                    let (ct, tag) = s.aesgcm_encrypt_split(&key, &nonce, &aad, &msg, cuts);
                    if ct != rct || tag != rtag {
                        v.push(Violation::new("gcm-encrypt", "gcm", format!("message of {} bytes, aad {} bytes, cuts {:?}: ciphertext {} tag {}", msg.len(), aad.len(), cuts, if ct == rct { "ok" } else { "DIFFERS" }, if tag == rtag { "ok" } else { "DIFFERS" })));
                        break;
                    }
                }
                ctx.eval();
                let (pt, tag) = s.aesgcm_decrypt(&key, &nonce, &aad, &rct);
                if pt != msg || tag != rtag {
                    v.push(Violation::new("gcm-decrypt", "gcm", format!("message of {} bytes: decrypt gives {} plaintext, {} tag", msg.len(), if pt == msg { "right" } else { "WRONG" }, if tag == rtag { "right" } else { "WRONG" })));
                }
                ctx.sig(format!("gcm|{}|aad{}|cuts{}", align_class(msg.len(), 16), aad.len().min(17), ncuts.min(6)));
                ctx.sig(format!("gcm-len|{}", msg.len().min(1 << 16) / 97));
            }
            _ => {
                // the historical sample archive
                let repo = std::env::var("VERIF_REPO").unwrap_or_else(|_| "/repo".into());
                let path = format!("{repo}/samples/archive_v1.mla");
                let keyp = format!("{repo}/samples/test_x25519_archive_v1.pem");
                let (Ok(img), Ok(pem)) = (std::fs::read(&path), std::fs::read(&keyp)) else {
                    ctx.probe("sample-missing");
                    return v;
                };
                let Ok(sk) = curve25519_parser::parse_openssl_25519_privkey(&pem) else {
                    ctx.probe("sample-key-unparsable");
                    return v;
                };
                let kb = sk.to_bytes();
                ctx.eval();
                match refmla::decode(&img, Some(&kb), Params::documented()) {
                    Err(e) => v.push(Violation::new("sample-undecodable", "sample", format!("samples/archive_v1.mla is rejected by the independent decoder: {e}"))),
                    Ok(d) => {
                        let mut model = Model::default();
                        for (n, b) in &d.files {
                            model.order.push(n.clone());
                            model.files.insert(n.clone(), b.clone());
                        }
                        let rcfg = ReadCfg { keys: vec![hex::encode(kb)], sched: Sched::Full, budget: u64::MAX / 2, error_at_read: None, spill_path: None, explicit_auth_mode: false, replay: None };
                        v.extend(check_readback(s, &Rc::new(img), &rcfg, &model, 4096, ctx, "sample"));
                        ctx.sig(format!("sample|files{}|blocks{}", d.files.len(), d.comp.as_ref().map(|c| c.blocks.len()).unwrap_or(0)));
                        ctx.probe_n("sample-files", d.files.len() as u64);
                    }
                }
            }
        }
        v
    }
}
