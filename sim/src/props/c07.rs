//! C07 Confidentiality: fresh secrets per archive, no plaintext, recipients only.
use super::common::*;
use crate::model::*;
use crate::rng::Rng;
use crate::runner::{Case, Ctx, Prop, Tier, Violation};
use crate::seams::{Sched, SimSink};
use crate::sut::{sut, ROp, ReadCfg};
use std::collections::BTreeSet;
use std::rc::Rc;

pub struct C07;

fn find(hay: &[u8], needle: &[u8]) -> Option<usize> {
    if needle.is_empty() || hay.len() < needle.len() {
        return None;
    }
    let first = needle[0];
    let mut i = 0;
    while i + needle.len() <= hay.len() {
        match hay[i..hay.len() - needle.len() + 1].iter().position(|b| *b == first) {
            None => return None,
            Some(p) => {
                i += p;
                if &hay[i..i + needle.len()] == needle {
                    return Some(i);
                }
                i += 1;
            }
        }
    }
    None
}

/// secrets of one archive written with the OS generator: (key, nonce, ephemeral public key)
fn secrets(s: &dyn crate::sut::Sut, cfg: &ArcCfg, ops: &[WOp]) -> Result<(Vec<u8>, ([u8; 32], [u8; 8], [u8; 32])), String> {
    let sink = SimSink::new(&Sched::Full);
    let w = s.write(cfg, ops, sink.clone());
    if let Some(p) = w.panic {
        return Err(format!("panic {p}"));
    }
    if let Some(e) = w.from_config_err {
        return Err(e);
    }
    if let Some(Err(e)) = w.results.iter().find(|r| r.is_err()) {
        return Err(e.clone());
    }
    let img = sink.data();
    let (k, n) = w.enc_params.ok_or("no encryption parameters")?;
    let mut eph = [0u8; 32];
    eph.copy_from_slice(&img[9..41]);
    Ok((img, (k, n, eph)))
}

/// fork() without exec: the child inherits the whole memory image of this process (every generator state included),
/// writes ONE archive and sends its secrets back through a pipe
fn forked_secrets(cfg: &ArcCfg, ops: &[WOp]) -> Result<([u8; 32], [u8; 8], [u8; 32]), String> {
    let mut fds = [0i32; 2];
    if unsafe { libc::pipe(fds.as_mut_ptr()) } != 0 {
        return Err("pipe".into());
    }
    let pid = unsafe { libc::fork() };
    if pid < 0 {
        return Err("fork".into());
    }
    if pid == 0 {
        let line = match secrets(sut(&cfg.variant), cfg, ops) {
            Ok((_, (k, n, e))) => format!("{} {} {}\n", hex::encode(k), hex::encode(n), hex::encode(e)),
            Err(_) => "ERR\n".to_string(),
        };
        unsafe {
            libc::write(fds[1], line.as_ptr().cast(), line.len());
            libc::_exit(0);
        }
    }
    unsafe { libc::close(fds[1]) };
    let mut got = Vec::new();
    let mut buf = [0u8; 256];
    loop {
        let n = unsafe { libc::read(fds[0], buf.as_mut_ptr().cast(), buf.len()) };
        if n <= 0 {
            break;
        }
        got.extend_from_slice(&buf[..n as usize]);
    }
    unsafe {
        libc::close(fds[0]);
        let mut st = 0i32;
        libc::waitpid(pid, &mut st, 0);
    }
    let t = String::from_utf8_lossy(&got).to_string();
    let parts: Vec<Vec<u8>> = t.split_whitespace().map(|h| hex::decode(h).unwrap_or_default()).collect();
    if parts.len() == 3 && parts[0].len() == 32 && parts[1].len() == 8 && parts[2].len() == 32 {
        Ok((parts[0].clone().try_into().unwrap(), parts[1].clone().try_into().unwrap(), parts[2].clone().try_into().unwrap()))
    } else {
        Err(format!("forked child: {t:?}"))
    }
}

/// child process: write the archive of `case` once and print its secrets
pub fn child_main(case_json: &str) -> i32 {
    let Ok(case) = serde_json::from_str::<Case>(case_json) else { return 2 };
    let s = sut(&case.cfg.variant);
    match secrets(s, &case.cfg, &case.ops) {
        Ok((_, (k, n, e))) => {
            println!("{} {} {}", hex::encode(k), hex::encode(n), hex::encode(e));
            0
        }
        Err(_) => 2,
    }
}

impl Prop for C07 {
    fn id(&self) -> &'static str {
        "C07"
    }
    fn level(&self) -> &'static str {
        "exploration"
    }
    fn rule(&self) -> String {
        "run = one seeded encrypted workload (E or C+E, 1..4 recipients - one run in 12: 9, 17, 85, 129, 257 or 300, of which the first, second, 9th, middle, 256th/257th, last ones and two random ones are tried -, names and contents made of unique high-entropy markers, sizes around the 4 KiB cipher buffer and the 128 KiB chunk) on the unmodified `prod` build, or on `prodv` with NO seed installed in hook H2 (showing the hook is inert by default); the real OS generator is used. The same operations are executed 8 times in the worker process - five times on the worker's thread, three times each on a thread of its own (spawned and joined at once) - and, on one run in eight, once in a FORKED copy of the worker (fork without exec: same memory image), once more in the worker right after the fork, and once in each of two freshly spawned processes as their first action: symmetric key (from get_encrypt_parameters), archive nonce and ephemeral public key must be pairwise distinct over all these archives. Sink monitor: no 16-byte marker of any content and no file name occurs anywhere in the bytes the sink received after the header (searched on the whole stored stream, so a marker split across writes is seen). Key lists: every recipient opens the archive and reads it back, alone and at the first three positions among decoy keys (now and then behind 9..40 decoys); lists without a recipient key, and the empty list, fail to open. distinct_nontrivial = distinct (variant, layers, recipients, reader position class, size class, cross-process?) signatures.".into()
    }
    fn assumptions(&self) -> Vec<String> {
        vec![
            "freshness is judged with the real OS entropy source; a false alarm needs a collision of honest 64-bit nonces (probability < 1e-9 per check)".into(),
            "marker search is confined to the bytes after the header and to encrypted archives".into(),
        ]
    }
    fn prod_digest_comparable(&self) -> bool {
        true
    }
    fn runs(&self, tier: Tier) -> u64 {
        match tier {
            Tier::Quick => 320,
            Tier::Thorough => 12_000,
        }
    }
    fn stubbed_components(&self) -> Vec<String> {
        vec!["byte sink (also the plaintext monitor)".into(), "byte source".into()]
    }
    fn make(&self, seed: u64, run: u64, _tier: Tier) -> Case {
        let mut rng = Rng::derive(seed, "C07", run, "gen");
        let variant = if rng.chance(3, 4) { "prod" } else { "prodv" };
        // usually 1..4 recipients; one run in 12 has a crowd (a recipient deep in the list must still get in)
        let recipients = if rng.chance(1, 12) { *rng.pick(&[9usize, 17, 85, 129, 257, 300]) } else { rng.range(1, 4) as usize };
        let cfg = ArcCfg { variant: variant.into(), layers: if rng.chance(1, 2) { L_ENC } else { L_ENC | L_COMP }, level: rng.below(12) as u32, recipients, reader: rng.usize_below(recipients), rng_seed: 0, key_seed: rng.u64() };
        let mut ops = Vec::new();
        let nf = rng.range(1, 3);
        for i in 0..nf {
            let n = match rng.below(8) {
                0 => rng.range(16, 64),
                1 => 4096 - rng.below(40),
                2 => 4096 + rng.below(40),
                3 => 128 * 1024 - rng.below(40),
                4 => 128 * 1024 + rng.below(5000),
                _ => rng.range(16, 9000),
            } as usize;
            let name = Name::lit(&format!("secret-name-{:016x}-{i}", rng.u64()));
            if rng.chance(1, 2) {
                ops.push(WOp::Add { name, data: Data::Rand { n, seed: rng.u64() }, src: Src::exact() });
            } else {
                let a = rng.usize_below(n + 1);
                ops.push(WOp::Start { f: i as usize, name });
                ops.push(WOp::Append { f: i as usize, data: Data::Rand { n: a, seed: rng.u64() }, src: Src::exact() });
                if rng.chance(1, 3) {
                    ops.push(WOp::Flush);
                }
                ops.push(WOp::Append { f: i as usize, data: Data::Rand { n: n - a, seed: rng.u64() }, src: Src::exact() });
                ops.push(WOp::End { f: i as usize });
            }
        }
        ops.push(WOp::Finalize);
        let mut case = Case::new("C07", cfg, ops);
        case.params.insert("cross".into(), i64::from(run % 8 == 0));
        case.params.insert("decoy_seed".into(), (rng.u64() >> 1) as i64);
        // one run in three: the writer configuration reaches the same layers and keys by another ROUTE of its builder
        if rng.chance(1, 3) {
            case.params.insert("cfg_route".into(), rng.range(1, 4) as i64);
        }
        case
    }
    fn exec(&self, case: &Case, ctx: &mut Ctx) -> Vec<Violation> {
        let mut v = Vec::new();
        let s = sut(&case.cfg.variant);
        let model = model_of(&case.ops);
        struct Route;
        impl Drop for Route {
            fn drop(&mut self) {
                crate::seams::set_cfg_route(0);
            }
        }
        let _route = Route;
        let route = case.param("cfg_route", 0) as u8;
        crate::seams::set_cfg_route(route);
        if route != 0 {
            crate::seams::fired("config_built_by_another_route");
        }
        let mut keys = BTreeSet::new();
        let mut nonces = BTreeSet::new();
        let mut ephs = BTreeSet::new();
        let mut first_image: Option<Vec<u8>> = None;
        let n_inproc = case.param("repeat", 8);
        let mut total = 0;
        let mut add = |k: [u8; 32], n: [u8; 8], e: [u8; 32], what: &str, v: &mut Vec<Violation>, total: &mut i64| {
            *total += 1;
            if !keys.insert(k) {
                v.push(Violation::new("secret-repeated", format!("key|{what}"), format!("the symmetric key of archive #{total} ({what}) was already used by an earlier archive created with identical inputs")));
            }
            if !nonces.insert(n) {
                v.push(Violation::new("secret-repeated", format!("nonce|{what}"), format!("the archive nonce of archive #{total} ({what}) was already used by an earlier archive")));
            }
            if !ephs.insert(e) {
                v.push(Violation::new("secret-repeated", format!("ephemeral|{what}"), format!("the ephemeral public key of archive #{total} ({what}) was already used by an earlier archive")));
            }
        };
        for rep in 0..n_inproc {
            ctx.eval();
            // repetitions 2, 5 and 6 run on a thread of their own (spawned and joined at once: one thread runs at a
            // time, the order is fixed), as the first and only archive that thread creates
            let on_thread = matches!(rep, 2 | 5 | 6);
            let res = if on_thread {
                crate::seams::fired("archive_created_on_its_own_thread");
                let (cfg, ops) = (case.cfg.clone(), case.ops.clone());
                std::thread::spawn(move || secrets(sut(&cfg.variant), &cfg, &ops)).join().unwrap_or_else(|_| Err("the writer thread panicked".into()))
            } else {
                secrets(s, &case.cfg, &case.ops)
            };
            match res {
                Ok((img, (k, n, e))) => {
                    add(k, n, e, if on_thread { "own-thread" } else { "same-process" }, &mut v, &mut total);
                    if first_image.is_none() {
                        first_image = Some(img);
                    }
                }
                Err(e) => {
                    v.push(Violation::new("workload-write-failed", "write", e));
                    return v;
                }
            }
        }
        if case.param("cross", 0) == 1 {
            // a forked copy of this process (same memory image, this thread having created archives already) writes one
            // archive; so does this process right afterwards: the two must not share a secret
            ctx.eval();
            match forked_secrets(&case.cfg, &case.ops) {
                Ok((k, n, e)) => {
                    crate::seams::fired("process_forked_after_archives_were_created");
                    add(k, n, e, "forked-child", &mut v, &mut total);
                }
                Err(e) => crate::runner::harness_error(&format!("c07 fork: {e}")),
            }
            match secrets(s, &case.cfg, &case.ops) {
                Ok((_, (k, n, e))) => add(k, n, e, "parent-after-fork", &mut v, &mut total),
                Err(e) => {
                    v.push(Violation::new("workload-write-failed", "write", e));
                    return v;
                }
            }
            // two fresh processes, the archive is the first thing each does
            let exe = std::env::current_exe().expect("exe");
            let js = serde_json::to_string(case).unwrap();
            for _ in 0..2 {
                ctx.eval();
                let out = std::process::Command::new(&exe).arg("c07child").arg(&js).output();
                match out {
                    Ok(o) if o.status.success() => {
                        let t = String::from_utf8_lossy(&o.stdout);
                        let parts: Vec<Vec<u8>> = t.split_whitespace().map(|h| hex::decode(h).unwrap_or_default()).collect();
                        if parts.len() == 3 && parts[0].len() == 32 && parts[1].len() == 8 && parts[2].len() == 32 {
                            add(parts[0].clone().try_into().unwrap(), parts[1].clone().try_into().unwrap(), parts[2].clone().try_into().unwrap(), "fresh-process", &mut v, &mut total);
                            crate::seams::fired("fresh_process_spawned");
                        } else {
                            crate::runner::harness_error("c07child: bad output");
                        }
                    }
                    other => crate::runner::harness_error(&format!("c07child failed: {other:?}")),
                }
            }
        }
        let image = first_image.unwrap();
        let hlen = header_len(&case.cfg);
        // sink monitor
        let body = &image[hlen..];
        for (name, content) in &model.files {
            ctx.eval();
            if let Some(p) = find(body, name.as_bytes()) {
                v.push(Violation::new("plaintext-in-archive", "name", format!("file name {name:?} appears in clear at stored offset {}", hlen + p)));
            }
            for (i, marker) in content.chunks_exact(16).enumerate() {
                if let Some(p) = find(body, marker) {
                    let rel = i * 16;
                    let zone = if content.len() - rel <= 4096 { "tail" } else if rel < 4096 { "head" } else { "middle" };
                    v.push(Violation::new("plaintext-in-archive", format!("content|{zone}"), format!("16 bytes of the content of {name:?} (offset {rel} of {}) appear in clear at stored offset {}", content.len(), hlen + p)));
                    break;
                }
            }
        }
        // recipients only
        let img = Rc::new(image);
        let mut drng = Rng::new(case.param("decoy_seed", 1) as u64);
        let decoy = |r: &mut Rng| -> String { hex::encode(r.bytes(32)) };
        let nrec = case.cfg.recipients;
        let mut tested: Vec<usize> = if nrec <= 4 { (0..nrec).collect() } else { vec![0, 1, 8, nrec / 2, 255, 256, nrec - 2, nrec - 1, drng.usize_below(nrec), drng.usize_below(nrec)] };
        tested.retain(|i| *i < nrec);
        tested.sort();
        tested.dedup();
        for i in tested {
            let right = hex::encode(key_bytes(case.cfg.key_seed, i));
            // position of the right key among decoys: first, second, third, and now and then deep in a long list
            let mut positions = vec![0usize, 1, 2];
            if drng.chance(1, 4) {
                positions.push(drng.range(9, 40) as usize);
            }
            for pos in positions {
                let mut keys: Vec<String> = (0..pos).map(|_| decoy(&mut drng)).collect();
                keys.push(right.clone());
                for _ in 0..drng.below(2) {
                    keys.push(decoy(&mut drng));
                }
                let rcfg = ReadCfg { keys, sched: Sched::Full, budget: u64::MAX / 2, error_at_read: None, spill_path: None, explicit_auth_mode: false, replay: None };
                let vs = check_readback(s, &img, &rcfg, &model, 8192, ctx, "recipient");
                for mut x in vs {
                    x.class = format!("{}|position={pos}", x.class);
                    x.msg = format!("recipient {i} of {} at position {pos} of the key list: {}", case.cfg.recipients, x.msg);
                    v.push(x);
                }
            }
        }
        for nkeys in 0..3usize {
            ctx.eval();
            let keys: Vec<String> = (0..nkeys).map(|_| decoy(&mut drng)).collect();
            let rcfg = ReadCfg { keys, sched: Sched::Full, budget: u64::MAX / 2, error_at_read: None, spill_path: None, explicit_auth_mode: false, replay: None };
            let out = s.read(img.clone(), &rcfg, &[ROp::List]);
            if out.panic.is_none() && out.open.is_ok() {
                v.push(Violation::new("opened-without-recipient-key", format!("keys={nkeys}"), format!("the archive opened with {nkeys} key(s) none of which belongs to a recipient: {:?}", out.results.first().map(|r| format!("{r:?}").chars().take(80).collect::<String>()))));
            }
        }
        let total_len: usize = model.files.values().map(Vec::len).sum();
        ctx.sig(format!("{}|{}|r{}|p{}|{}|x{}", case.cfg.variant, case.cfg.layer_name(), case.cfg.recipients, case.cfg.reader.min(2), if total_len < 4096 { "<4k" } else if total_len < 131072 { "<128k" } else { ">=128k" }, case.param("cross", 0)));
        v
    }
}
