//! C15 Streaming keeps memory bounded independently of the amount of data.
use crate::model::*;
use crate::rng::Rng;
use crate::runner::{Case, Ctx, Prop, Tier, Violation};
use crate::seams::{heap_mark, Sched, SimSink};
use crate::sut::{sut, ReadCfg};
use std::rc::Rc;

pub struct C15;

const MIB: usize = 1 << 20;
/// calibrated on the unchanged tree (see evidence `calibration`): about twice the observed peaks
const CEIL_WRITE: usize = 64 * MIB;
const CEIL_REPAIR: usize = 96 * MIB;
const CEIL_LINEAR: usize = 64 * MIB;

fn stream_ops(total: usize, files: usize, piece: usize, class: u64, seed: u64, interleave: bool, flush_every: usize) -> Vec<WOp> {
    // pieces above 1 MiB are generated on the fly so that the harness does not hold them
    let src = || Src { sched: Sched::Full, short_by: 0, extra: 0, stream: piece > MIB };
    let mut ops = Vec::new();
    let per = total / files.max(1);
    let mk = |n: usize, k: u64| -> Data {
        match class {
            0 => Data::Rand { n, seed: seed ^ k },
            1 => Data::Zeros { n },
            _ => Data::Text { n, seed: seed ^ k },
        }
    };
    for f in 0..files {
        ops.push(WOp::Start { f, name: Name::lit(&format!("stream-{f}")) });
    }
    let mut left: Vec<usize> = vec![per; files];
    let mut k = 0u64;
    if interleave {
        loop {
            let mut any = false;
            for f in 0..files {
                if left[f] > 0 {
                    let n = left[f].min(piece);
                    ops.push(WOp::Append { f, data: mk(n, k), src: src() });
                    left[f] -= n;
                    k += 1;
                    any = true;
                    if flush_every > 0 && k % flush_every as u64 == 0 {
                        ops.push(WOp::Flush);
                    }
                }
            }
            if !any {
                break;
            }
        }
    } else {
        for f in 0..files {
            while left[f] > 0 {
                let n = left[f].min(piece);
                ops.push(WOp::Append { f, data: mk(n, k), src: src() });
                left[f] -= n;
                k += 1;
                if flush_every > 0 && k % flush_every as u64 == 0 {
                    ops.push(WOp::Flush);
                }
            }
        }
    }
    for f in 0..files {
        ops.push(WOp::End { f });
    }
    ops.push(WOp::Finalize);
    ops
}

struct Peaks {
    write: usize,
    repair: usize,
    linear: usize,
    /// linear extraction that chooses NO file of the archive: every content block is skipped
    linear_skip: usize,
    stored: usize,
}

fn measure(case: &Case, total: usize, files: usize, piece: usize, interleave: bool, scratch: &std::path::Path, v: &mut Vec<Violation>) -> Option<Peaks> {
    let s = sut(&case.cfg.variant);
    let ops = stream_ops(total, files, piece, case.param("class", 0) as u64, case.param("data_seed", 1) as u64, interleave, case.param("flush_every", 0) as usize);
    let spill = scratch.join(format!("spill-{total}-{files}.mla"));
    // the destination accepts everything, or - on some runs - only part of each write, with interruptions
    let sink_sched = match case.param("slow_sink", 0) {
        1 => Sched::Rand { seed: case.param("data_seed", 1) as u64, max: 3000 },
        2 => Sched::Intr { seed: (case.param("data_seed", 1) as u64) * 4, max: 5000, intr_den: 4 },
        _ => Sched::Full,
    };
    let sink = SimSink::counting(&sink_sched, Some(&spill));
    // the op list itself lives on the heap before the mark; only growth during the calls is measured
    let m = heap_mark();
    let w = s.write(&case.cfg, &ops, sink.clone());
    let (pw, _) = m.measure();
    // what the HARNESS itself allocated while the write was measured - one result per call, one mark per flush, in
    // vectors that double (old and new buffer alive together at the peak) - is not the library's: taken off
    let own = (w.results.capacity() * std::mem::size_of::<Result<u64, String>>() + w.flush_marks.capacity() * std::mem::size_of::<(usize, usize)>() + sink.flush_marks().len() * 2 * std::mem::size_of::<usize>()) * 3 / 2;
    let pw = pw.saturating_sub(own);
    if w.panic.is_some() || w.from_config_err.is_some() || w.results.iter().any(Result::is_err) {
        v.push(Violation::new("workload-write-failed", "write", format!("writing the workload failed: panic {:?}, from_config {:?}, first failed call {:?}", w.panic, w.from_config_err, w.results.iter().find(|r| r.is_err()))));
        let _ = std::fs::remove_file(&spill);
        return None;
    }
    drop(w);
    let stored = sink.len();
    drop(sink);
    let mut rcfg = ReadCfg::for_cfg(&case.cfg);
    rcfg.spill_path = Some(spill.to_string_lossy().to_string());
    let ocfg = ArcCfg { variant: case.cfg.variant.clone(), layers: 0, level: 0, recipients: 0, reader: 0, rng_seed: 0, key_seed: 0 };
    let m = heap_mark();
    let rep = s.repair_into(Rc::new(Vec::new()), &rcfg, false, &ocfg, SimSink::counting(&Sched::Full, None));
    let (pr, _) = m.measure();
    match (&rep.panic, &rep.convert) {
        (None, Some(Ok(st))) if st.stop == "EndOfOriginalArchiveData" => {}
        other => v.push(Violation::new("streaming-repair-failed", "repair", format!("repair of the streamed archive ({stored} bytes): {:?}", format!("{other:?}").chars().take(200).collect::<String>()))),
    }
    drop(rep);
    // the default mode of repair too (authenticated), when there is something to authenticate
    let mut pr = pr;
    if case.cfg.enc() {
        let m = heap_mark();
        let rep = s.repair_into(Rc::new(Vec::new()), &rcfg, true, &ocfg, SimSink::counting(&Sched::Full, None));
        let (pa, _) = m.measure();
        match (&rep.panic, &rep.convert) {
            (None, Some(Ok(st))) if st.stop == "EndOfOriginalArchiveData" => {}
            other => v.push(Violation::new("streaming-repair-failed", "repair-authenticated", format!("authenticated repair of the streamed archive ({stored} bytes): {:?}", format!("{other:?}").chars().take(200).collect::<String>()))),
        }
        pr = pr.max(pa);
    }
    let names: Vec<String> = (0..files.min(8)).map(|f| format!("stream-{f}")).collect();
    let m = heap_mark();
    let lin = s.linear_opts(Rc::new(Vec::new()), &rcfg, &names, &Sched::Full, None, false);
    let (pl, _) = m.measure();
    if lin.panic.is_some() || !matches!(lin.result, Some(Ok(()))) {
        v.push(Violation::new("streaming-linear-failed", "linear", format!("linear extraction of the streamed archive: {:?} {:?} {:?}", lin.panic, lin.open, lin.result)));
    }
    drop(lin);
    let m = heap_mark();
    let lin = s.linear_opts(Rc::new(Vec::new()), &rcfg, &["not-in-the-archive".to_string()], &Sched::Full, None, false);
    let (ps, _) = m.measure();
    if lin.panic.is_some() || !matches!(lin.result, Some(Ok(()))) {
        v.push(Violation::new("streaming-linear-failed", "linear-skip", format!("linear extraction choosing no file of the streamed archive: {:?} {:?} {:?}", lin.panic, lin.open, lin.result)));
    }
    let _ = std::fs::remove_file(&spill);
    Some(Peaks { write: pw, repair: pr, linear: pl, linear_skip: ps, stored })
}

impl Prop for C15 {
    fn id(&self) -> &'static str {
        "C15"
    }
    fn level(&self) -> &'static str {
        "exploration"
    }
    fn rule(&self) -> String {
        format!("run = on the unmodified `prod` build, for one layer set x data class (incompressible, zeros, text) x level: a generator streams S_small then S_big bytes (quick: 8 MiB and 64 MiB; thorough: 64 MiB and up to 1 GiB) in 1 MiB pieces, or as ONE piece of S bytes generated on the fly (a single content block), into a counting sink (on some runs one that accepts only part of each write and reports interruptions, bursts of up to 40) that spills to a file in a private scratch directory (nothing of the stream is held on the heap by the harness); on some runs a flush follows every fourth piece, on others the stream arrives as records of 500..3000 bytes with a flush after EACH (2 MiB vs 12 MiB; thorough 32 MiB), on others two files are fed alternately piece by piece; the spilled archive is then repaired (unauthenticated mode and, when encrypted, the default authenticated mode) into a counting sink and linearly extracted into counting sinks - once choosing the streamed files, once choosing none of them, so that every content block goes down the skip path -, reading from the spill file through the simulated source. A counting global allocator (wrapper around System) measures the peak live heap above the level at the start of each call. Oracle: peak <= fixed ceiling (write {} MiB, repair {} MiB, linear extraction {} MiB; calibrated at about twice the unchanged tree) and peak(S_big) <= peak(S_small) + 8 MiB + 16 bytes per 4 MiB block (for repair and linear extraction of archives without compression: + 16 KiB instead of 8 MiB - the unchanged tree differs by less than 1 KiB there) (8 MiB = two compression blocks, covers the compressor's own block-to-block variation; a stream buffered in memory would differ by tens of MiB); a second kind of run varies the number of files F and of non-contiguous runs R (interleaved 4 KiB pieces) at a fixed total size and checks growth <= 1 KiB per file + 64 bytes per run above the single-file peak. distinct_nontrivial = distinct (layers, data class, kind, size pair) signatures.", CEIL_WRITE / MIB, CEIL_REPAIR / MIB, CEIL_LINEAR / MIB)
    }
    fn assumptions(&self) -> Vec<String> {
        vec!["allocation failure is not injected (Rust aborts on OOM); the allocator seam only measures".into(), "the file system under the spill file is real, in a private directory removed after the run".into()]
    }
    fn prod_digest_comparable(&self) -> bool {
        true
    }
    fn runs(&self, tier: Tier) -> u64 {
        match tier {
            Tier::Quick => 32,
            Tier::Thorough => 64,
        }
    }
    fn jobs(&self) -> usize {
        8
    }
    fn stall_limit_s(&self, _tier: Tier) -> u64 {
        1200
    }
    fn budget_s(&self, tier: Tier) -> u64 {
        match tier {
            Tier::Quick => 120,
            Tier::Thorough => 1500,
        }
    }
    fn stubbed_components(&self) -> Vec<String> {
        vec!["byte sink (counting, spills to a scratch file)".into(), "byte source (over the scratch file)".into(), "global allocator (System + accounting)".into()]
    }
    fn make(&self, seed: u64, run: u64, tier: Tier) -> Case {
        let mut rng = Rng::derive(seed, "C15", run, "gen");
        let layers = (run % 4) as u8;
        let cfg = ArcCfg { variant: "prod".into(), layers, level: *rng.pick(&[0u32, 1, 5, 5, 9]), recipients: usize::from(layers & 1 != 0), reader: 0, rng_seed: 0, key_seed: rng.u64() };
        let mut case = Case::new("C15", cfg, vec![]);
        let kind = if (run / 4) % 4 == 3 { 1 } else { 0 }; // 0 size independence, 1 files x runs
        case.params.insert("kind".into(), kind);
        case.params.insert("class".into(), ((run / 4) % 3) as i64);
        case.params.insert("data_seed".into(), (rng.u64() >> 1) as i64);
        let (small, big) = match tier {
            Tier::Quick => (16, 64),
            Tier::Thorough => (64, *rng.pick(&[256i64, 512, 1024])),
        };
        case.params.insert("small_mib".into(), small);
        case.params.insert("big_mib".into(), if layers & 2 != 0 && case.cfg.level >= 9 { big.min(128) } else { big });
        case.params.insert("files".into(), *rng.pick(&[200i64, 1000]));
        case.params.insert("one_piece".into(), i64::from((run / 16) % 2 == 1 || (run / 4) % 4 == 1));
        // a flush after every 4th piece on some runs; two files fed alternately on others
        case.params.insert("flush_every".into(), if (run / 4) % 4 == 2 { 4 } else { 0 });
        case.params.insert("two_files".into(), i64::from((run / 4) % 4 == 0 && (run / 16) % 2 == 0));
        if (run / 4) % 8 == 1 {
            case.params.insert("slow_sink".into(), 1 + (run / 32) as i64 % 2);
        }
        if (run / 4) % 8 == 5 {
            // small records, a flush after each one; smaller totals (tens of thousands of flushes)
            case.params.insert("record".into(), *rng.pick(&[500i64, 1000, 3000]));
            case.params.insert("flush_every".into(), 1);
            case.params.insert("one_piece".into(), 0);
            case.params.insert("two_files".into(), 0);
            case.params.insert("small_mib".into(), 2);
            case.params.insert("big_mib".into(), if tier == Tier::Thorough { 32 } else { 12 });
            case.cfg.level = case.cfg.level.min(5);
        }
        case
    }
    fn exec(&self, case: &Case, ctx: &mut Ctx) -> Vec<Violation> {
        let mut v = Vec::new();
        let scratch = crate::runner::verif_dir().join(".build").join("scratch").join(format!("c15-{}-{}", std::process::id(), case.param("data_seed", 0)));
        let _ = std::fs::create_dir_all(&scratch);
        let cls = format!("{}|class{}", case.cfg.layer_name(), case.param("class", 0));
        if case.param("kind", 0) == 0 {
            let small = case.param("small_mib", 8) as usize * MIB;
            let big = case.param("big_mib", 64) as usize * MIB;
            // piece size: 1 MiB pieces, the whole stream as ONE piece (a single content block of S bytes), or small
            // records (a flush after each: the log-line style of producer)
            let rec = case.param("record", 0) as usize;
            let piece = if rec > 0 { rec } else if case.param("one_piece", 0) == 1 { usize::MAX } else { MIB };
            // one file, or two files fed alternately (piece by piece)
            let nf = if case.param("two_files", 0) == 1 && piece != usize::MAX { 2 } else { 1 };
            let a = measure(case, small, nf, piece, nf > 1, &scratch, &mut v);
            let b = measure(case, big, nf, piece, nf > 1, &scratch, &mut v);
            if let (Some(a), Some(b)) = (a, b) {
                let blocks = big / (4 * MIB) + 1;
                // two alternating files: one run per piece, 64 bytes allowed per run
                let tol = 8 * MIB + 16 * blocks + if nf > 1 { 64 * (big / MIB) } else { 0 };
                for (what, pa, pb, ceil) in [("write", a.write, b.write, CEIL_WRITE), ("repair", a.repair, b.repair, CEIL_REPAIR), ("linear-extract", a.linear, b.linear, CEIL_LINEAR), ("linear-extract-skipping", a.linear_skip, b.linear_skip, CEIL_LINEAR)] {
                    ctx.eval();
                    ctx.probe_n(&format!("peak-{what}-KiB-max"), 0);
                    if std::env::var("MLASIM_C15_DEBUG").is_ok() {
                        eprintln!("C15DBG {what} {cls} small={pa} big={pb} diff={}", pb as i64 - pa as i64);
                    }
                    if pb > ceil || pa > ceil {
                        v.push(Violation::new("memory-ceiling", format!("{what}|{cls}"), format!("{what}: peak live heap {pa} bytes for {} MiB and {pb} bytes for {} MiB streamed, ceiling {ceil}", small / MIB, big / MIB)));
                    }
                    // reading an archive WITHOUT compression involves no block-to-block variation of a codec: on the unchanged
                    // tree the two peaks differ by less than 1 KiB, so the allowance there is 16 KiB (+ the per-block and
                    // per-run terms) instead of 8 MiB
                    let tol = if what != "write" && !case.cfg.comp() { tol - 8 * MIB + 16 * 1024 } else { tol };
                    if pb > pa + tol {
                        v.push(Violation::new("memory-grows-with-data", format!("{what}|{cls}"), format!("{what}: peak live heap {pa} bytes for {} MiB but {pb} bytes for {} MiB streamed (tolerance {tol})", small / MIB, big / MIB)));
                    }
                    ctx.sig(format!("size|{cls}|{what}|{}-{}|piece{}|peakMiB{}", small / MIB, big / MIB, if piece == MIB { "1MiB" } else { "whole" }, pb / MIB));
                }
                ctx.probe_n("bytes-streamed-MiB", ((small + big) / MIB) as u64);
                ctx.probe_n("bytes-stored-MiB", ((a.stored + b.stored) / MIB) as u64);
            }
        } else {
            // F files x R runs at a fixed total
            let files = case.param("files", 200) as usize;
            let total = 8 * MIB;
            let base = measure(case, total, 1, MIB, false, &scratch, &mut v);
            let many = measure(case, total, files, 4096, true, &scratch, &mut v);
            if let (Some(a), Some(b)) = (base, many) {
                let runs = total / 4096;
                let allowed = 1024 * files + 64 * runs + MIB;
                for (what, pa, pb) in [("write", a.write, b.write), ("repair", a.repair, b.repair), ("linear-extract", a.linear, b.linear), ("linear-extract-skipping", a.linear_skip, b.linear_skip)] {
                    ctx.eval();
                    if pb > pa + allowed {
                        v.push(Violation::new("memory-per-file", format!("{what}|{cls}"), format!("{what}: {files} files in {runs} interleaved runs need {pb} bytes at peak, one file needs {pa}; allowed growth {allowed}")));
                    }
                    ctx.sig(format!("files|{cls}|{what}|f{files}|growthKiB{}", pb.saturating_sub(pa) / 1024 / 64));
                }
            }
        }
        let _ = std::fs::remove_dir_all(&scratch);
        v
    }
}
