//! C10 Random access: results do not depend on what was read before.
use super::common::*;
use crate::model::*;
use crate::rng::Rng;
use crate::runner::{Case, Ctx, Prop, Tier, Violation};
use crate::seams::{Sched, SimSink};
use crate::sut::{consts_of, sut, ROp, RRes, ReadCfg};
use std::rc::Rc;

pub struct C10;

fn gen_rops(rng: &mut Rng, model: &Model, n: usize, chunk: usize, block: usize, edges: &[(String, usize)]) -> Vec<ROp> {
    let mut ops = Vec::new();
    let names: Vec<&String> = model.order.iter().collect();
    if names.is_empty() {
        return vec![ROp::List, ROp::Open { name: "nope".into() }, ROp::List];
    }
    let bufs = [0usize, 1, 2, 3, 5, 7, 13, 31, 61, 127, chunk - 1, chunk, chunk + 1, block - 1, block, block + 1, 1 << 20];
    while ops.len() < n {
        match rng.below(12) {
            0 => ops.push(ROp::List),
            1 | 2 => ops.push(ROp::Hash { name: (*rng.pick(&names)).clone() }),
            3 => ops.push(ROp::Open { name: "does-not-exist".into() }),
            4 | 5 | 6 if !edges.is_empty() => {
                // stop EXACTLY where the file's bytes cross a chunk or block edge of the stream below (or one byte
                // around it), abandon the file there and go on with whatever comes next
                let (name, p) = rng.pick(edges).clone();
                let p = match rng.below(6) {
                    0 => p.saturating_sub(1),
                    1 => p + 1,
                    _ => p,
                };
                ops.push(ROp::Open { name });
                ops.push(ROp::ReadExact { total: p, n: (*rng.pick(&bufs)).max(1) });
                if rng.chance(1, 4) {
                    ops.push(ROp::Read { n: *rng.pick(&bufs) });
                }
            }
            _ => {
                // open a file, read some of it (maybe abandon midway), maybe read to the end
                let name = (*rng.pick(&names)).clone();
                ops.push(ROp::Open { name });
                let k = rng.below(6);
                for _ in 0..k {
                    if rng.chance(1, 8) {
                        // one vectored read into 1-4 buffers (some empty)
                        let sizes: Vec<usize> = (0..rng.range(1, 4)).map(|_| *rng.pick(&[0usize, 1, 4, 5, 7, 16, 64, chunk, block + 1])).collect();
                        ops.push(ROp::ReadVectored { sizes });
                    } else {
                        ops.push(ROp::Read { n: *rng.pick(&bufs) });
                    }
                }
                if rng.chance(1, 3) {
                    ops.push(ROp::ReadAll { n: (*rng.pick(&bufs)).max(1) });
                    if rng.chance(1, 2) {
                        // reads after the end
                        ops.push(ROp::Read { n: 5 });
                    }
                }
            }
        }
    }
    ops
}

impl Prop for C10 {
    fn id(&self) -> &'static str {
        "C10"
    }
    fn level(&self) -> &'static str {
        "exploration"
    }
    fn rule(&self) -> String {
        "run = seeded valid writer history with interleaved files spanning several chunks and blocks (all layer sets), opened once with the normal reader over the simulated source (one scaled run in 12: the same files in an archive of the independent writer - other ids, every block listed, empty blocks); then a seeded history of 20..200 reader operations on that ONE reader: list, get_hash, open a file (abandoning whichever was open), reads with buffers from {0,1,2,3,5,7,13,31,61,127,CHUNK-1,CHUNK,CHUNK+1,BLOCK-1,BLOCK,BLOCK+1,1 MiB}, one read in eight is a read_vectored call into 1-4 buffers (some empty), read-to-end, reads after the end, opening missing names, the same file repeatedly; a quarter of the file visits STOP EXACTLY (or one byte around) where the file's bytes cross a block or chunk edge of the file-layer stream (positions solved from the stream-length model), abandon the file there and continue with the next operation. One scaled run in 40 holds files of 70..1000 non-contiguous runs of 1-3 bytes. One scaled run in 50 has 300..4200 files and a history that asks for the hash of EVERY file, then again for the first 120 and 150 seeded ones, then opens, reads and hashes every seventh file and the first 60 (thousands of operations on one reader). Model: a per-file cursor over the abstract model's bytes (= what reading that file alone right after opening gives, which C01 establishes): every read returns exactly the bytes at the cursor (fewer than asked is allowed, 0 only for an empty buffer or at the end), sizes and hashes equal the model's at every point of the history. distinct_nontrivial = distinct (variant, layers, #files, interleaved, abandon point class vs chunk/block edge, buffer class) signatures.".into()
    }
    fn assumptions(&self) -> Vec<String> {
        vec!["the source splits nothing (split sources are C13)".into()]
    }
    fn runs(&self, tier: Tier) -> u64 {
        match tier {
            Tier::Quick => 5000,
            Tier::Thorough => 150_000,
        }
    }
    fn make(&self, seed: u64, run: u64, tier: Tier) -> Case {
        let mut rng = Rng::derive(seed, "C10", run, "gen");
        let variant = pick_variant(&mut rng, tier);
        let vc = consts_of(variant);
        let mut c = vc.model_consts();
        let big = vc.chunk > 1000;
        if big && rng.chance(2, 3) {
            c.block = 2 * c.chunk;
            c.repair_cache = 4 * c.chunk;
        }
        let cfg = gen_cfg(&mut rng, variant, vc.hooks);
        let o = GenOpts { max_files: 5, max_ops: if big { 12 } else { 30 }, max_piece: 2 * c.block, max_total: if big { 2 * c.block + 2 * c.chunk } else { 8 * c.block }, interleave: rng.chance(4, 5), flushes: false, special_names: false, finalize: true, piece_scheds: false };
        let mut ops = gen_ops(&mut rng, &c, &o);
        let mut cfg = cfg;
        if !big && rng.chance(1, 25) {
            let n = *rng.pick(&[65usize, 70, 129, 200, 257]);
            let ll = rng.range(1, 3) as usize;
            ops = gen_many_files(&mut rng, n, ll, 40);
        }
        maybe_many_recipients(&mut rng, &mut cfg, 40);
        // one scaled run in 50: hundreds to thousands of files, every one of them visited and then visited again
        let sweep = !big && rng.chance(1, 50);
        if sweep {
            let n = *rng.pick(&[300usize, 1100, 1100, 2100, 4200]);
            let ll = rng.range(1, 2) as usize;
            ops = gen_many_files(&mut rng, n, ll, 12);
        }
        let many_runs = !big && !sweep && rng.chance(1, 40);
        if many_runs {
            // a file whose content lies in hundreds of non-contiguous runs of 1-3 bytes (its offsets list has as many
            // entries): abandoned inside run k, re-opened, read with buffers larger than a run
            let runs = *rng.pick(&[70usize, 256, 300, 1000]);
            ops = gen_many_runs(&mut rng, runs);
        }
        let mut case = Case::new("C10", cfg, ops);
        if !big && !sweep && !many_runs && rng.chance(1, 12) {
            case.params.insert("foreign".into(), 1);
        }
        let model = model_of(&case.ops);
        let n = if big { rng.range(10, 40) } else { rng.range(20, 200) } as usize;
        // file positions at which the file-layer stream position is a multiple of the block size (what the
        // compression layer cuts) or of the chunk size (what the encryption layer cuts when it is alone)
        let mut edges: Vec<(String, usize)> = Vec::new();
        for (name, foff, soff, len) in content_extents(&case.ops) {
            for m in [vc.block as usize, vc.chunk as usize] {
                let mut e = soff.div_ceil(m) * m;
                while e <= soff + len && edges.len() < 64 {
                    edges.push((name.clone(), foff + (e - soff)));
                    e += m;
                }
            }
        }
        case.rops = gen_rops(&mut rng, &model, n, c.chunk, c.block, &edges);
        if sweep {
            // get_hash of every file, then of the first ones and of seeded ones again; then the same with get_file + read
            let names = &model.order;
            let mut r = vec![ROp::List];
            for nm in names {
                r.push(ROp::Hash { name: nm.clone() });
            }
            for nm in names.iter().take(120) {
                r.push(ROp::Hash { name: nm.clone() });
            }
            for _ in 0..150 {
                r.push(ROp::Hash { name: (*rng.pick(names)).clone() });
            }
            for nm in names.iter().step_by(7).chain(names.iter().take(60)) {
                r.push(ROp::Open { name: nm.clone() });
                r.push(ROp::ReadAll { n: 64 });
                r.push(ROp::Hash { name: nm.clone() });
            }
            r.extend(std::mem::take(&mut case.rops).into_iter().take(60));
            case.rops = r;
        }
        case
    }
    fn exec(&self, case: &Case, ctx: &mut Ctx) -> Vec<Violation> {
        let mut v = Vec::new();
        let s = sut(&case.cfg.variant);
        let vc = s.consts();
        let sink = SimSink::new(&Sched::Full);
        let w = s.write(&case.cfg, &case.ops, sink.clone());
        if w.panic.is_some() || w.from_config_err.is_some() || w.results.iter().any(Result::is_err) {
            v.push(Violation::new("workload-write-failed", "write", format!("writing the workload failed: panic {:?}, from_config {:?}, first failed call {:?}", w.panic, w.from_config_err, w.results.iter().find(|r| r.is_err()))));
            return v;
        }
        let model = model_of(&case.ops);
        let foreign = case.param("foreign", 0) == 1 && model.order.len() == model.files.len();
        let image = Rc::new(if foreign { foreign_image(&case.cfg, &model, vc.chunk as usize, vc.block as usize, case.cfg.key_seed ^ 0xF0) } else { sink.data() });
        let rcfg = case.rcfg.clone().unwrap_or_else(|| ReadCfg::for_cfg(&case.cfg));
        let out = s.read(image, &rcfg, &case.rops);
        ctx.eval();
        if let Some(p) = &out.panic {
            v.push(Violation::new("history-panic", super::repair::panic_class(p), format!("reader panicked during the history: {p}")));
            return v;
        }
        if let Err(e) = &out.open {
            v.push(Violation::new("history-open-failed", "open", format!("valid archive does not open: {e}")));
            return v;
        }
        let mut want_names: Vec<String> = model.files.keys().cloned().collect();
        want_names.sort();
        let mut cur: Option<(&String, usize)> = None;
        let chunk = vc.chunk as usize;
        let inter = case.ops.windows(2).any(|w| matches!((&w[0], &w[1]), (WOp::Append { f: a, .. }, WOp::Append { f: b, .. }) if a != b));
        for (i, (op, res)) in case.rops.iter().zip(out.results.iter()).enumerate() {
            ctx.eval();
            let what = format!("history op #{i} {op:?}");
            match (op, res) {
                (ROp::List, RRes::Names(n)) => {
                    if *n != want_names {
                        v.push(Violation::new("history-listing", "list", format!("{what}: listing differs from the model")));
                    }
                }
                (ROp::Hash { name }, r) => match (model.files.get(name), r) {
                    (Some(b), RRes::Hash(h)) if *h == sha256(b) => {}
                    (None, RRes::NotFound) => {}
                    _ => v.push(Violation::new("history-hash", "hash", format!("{what}: {:?}", format!("{r:?}").chars().take(100).collect::<String>()))),
                },
                (ROp::Open { name }, r) => {
                    if let Some((n, p)) = cur {
                        // abandon point class
                        ctx.sig(format!("abandon|{}|{}|{}", case.cfg.variant, case.cfg.layer_name(), align_class(p, chunk)));
                        let _ = n;
                    }
                    match (model.files.get(name), r) {
                        (Some(b), RRes::Opened { size }) if *size == b.len() as u64 => cur = Some((name, 0)),
                        (None, RRes::NotFound) => cur = None,
                        _ => {
                            v.push(Violation::new("history-open-file", "open-file", format!("{what}: {r:?}")));
                            cur = None;
                        }
                    }
                }
                (ROp::ReadVectored { sizes }, RRes::Bytes(b)) => {
                    // judged like a read into one buffer of the total size
                    if let Some((name, pos)) = cur.as_mut() {
                        let total: usize = sizes.iter().sum();
                        let orig = &model.files[*name];
                        let left = orig.len() - (*pos).min(orig.len());
                        let ok = b.len() <= total.min(left) && orig[*pos..*pos + b.len()] == b[..] && (!b.is_empty() || total == 0 || left == 0);
                        if !ok {
                            v.push(Violation::new("history-wrong-read", "vectored", format!("{what}: file {:?} at {} of {}: {} bytes returned; a cursor over the file read alone gives other bytes (or the read stalled)", name.chars().take(12).collect::<String>(), pos, orig.len(), b.len())));
                            break;
                        }
                        *pos += b.len();
                    } else {
                        v.push(Violation::new("history-wrong-read", "no-file", format!("{what}: bytes without an open file")));
                    }
                }
                (ROp::Read { n }, RRes::Bytes(b)) => {
                    if let Some((name, pos)) = cur.as_mut() {
                        let orig = &model.files[*name];
                        let left = orig.len() - (*pos).min(orig.len());
                        let ok = b.len() <= (*n).min(left) && orig[*pos..*pos + b.len()] == b[..] && (!b.is_empty() || *n == 0 || left == 0);
                        if !ok {
                            v.push(Violation::new("history-wrong-read", format!("buf={}", if *n == 0 { "0" } else if *n < chunk { "<chunk" } else { ">=chunk" }), format!("{what}: file {:?} at {} of {}: {} bytes returned; a cursor over the file read alone gives other bytes (or the read stalled)", name.chars().take(12).collect::<String>(), pos, orig.len(), b.len())));
                            break;
                        }
                        *pos += b.len();
                    } else {
                        v.push(Violation::new("history-wrong-read", "no-file", format!("{what}: bytes without an open file")));
                    }
                }
                (ROp::ReadExact { total, .. }, RRes::Bytes(b)) => {
                    if let Some((name, pos)) = cur.as_mut() {
                        let orig = &model.files[*name];
                        let from = (*pos).min(orig.len());
                        let want = &orig[from..(from + *total).min(orig.len())];
                        if want != &b[..] {
                            v.push(Violation::new("history-wrong-read", "read-exact", format!("{what}: file {:?} from {}: {} bytes returned, a cursor over the file read alone gives {}", name.chars().take(12).collect::<String>(), pos, b.len(), want.len())));
                            break;
                        }
                        ctx.sig(format!("stop|{}|{}|b{}|c{}", case.cfg.variant, case.cfg.layer_name(), align_class(from + b.len(), vc.block as usize), align_class(from + b.len(), chunk)));
                        *pos = from + b.len();
                    }
                }
                (ROp::ReadAll { .. }, RRes::Bytes(b)) => {
                    if let Some((name, pos)) = cur.as_mut() {
                        let orig = &model.files[*name];
                        if orig[(*pos).min(orig.len())..] != b[..] {
                            v.push(Violation::new("history-wrong-read", "read-to-end", format!("{what}: file {:?} from {}: {} bytes, the file read alone has {} left", name.chars().take(12).collect::<String>(), pos, b.len(), orig.len() - (*pos).min(orig.len()))));
                            break;
                        }
                        *pos = orig.len();
                    }
                }
                (ROp::Read { .. } | ROp::ReadAll { .. } | ROp::ReadExact { .. } | ROp::ReadVectored { .. }, RRes::NoFile) if cur.is_none() => {}
                (_, r) => {
                    v.push(Violation::new("history-op-error", "op", format!("{what}: {:?}", format!("{r:?}").chars().take(160).collect::<String>())));
                    break;
                }
            }
        }
        ctx.sig(format!("{}|{}|f{}|i{}|n{}", case.cfg.variant, case.cfg.layer_name(), model.files.len().min(4), inter, case.rops.len() / 50));
        v
    }
}
