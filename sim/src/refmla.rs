//! `refmla`: an independent model of MLA format v1, written from FORMAT.md.
//! Uses aes-gcm, hkdf, x25519-dalek, brotli and sha2 directly and a hand-written
//! fixed-int little-endian (bincode "fixint") reader/writer. Parameterised by
//! (CHUNK, BLOCK) so that it can follow the scaled variants; the documented
//! values are `Params::documented()`.
use aes_gcm::aead::{AeadInPlace, KeyInit};
use aes_gcm::Aes256Gcm;
use hkdf::Hkdf;
use sha2::{Digest, Sha256};
use std::collections::BTreeMap;
use std::io::{Read, Write};
use x25519_dalek::{PublicKey, StaticSecret};

pub const TAG: usize = 16;

#[derive(Clone, Copy, Debug)]
pub struct Params {
    pub chunk: usize,
    pub block: usize,
}

impl Params {
    pub fn documented() -> Params {
        Params { chunk: 128 * 1024, block: 4 * 1024 * 1024 }
    }
}

// ------------------------------------------------------------------ primitives

/// overflow-safe sub-slice (the model also parses hostile bytes)
fn sl(b: &[u8], at: usize, n: usize) -> Option<&[u8]> {
    b.get(at..at.checked_add(n)?)
}
fn u32le(b: &[u8], at: usize) -> Option<u32> {
    sl(b, at, 4).map(|s| u32::from_le_bytes(s.try_into().unwrap()))
}
fn u64le(b: &[u8], at: usize) -> Option<u64> {
    sl(b, at, 8).map(|s| u64::from_le_bytes(s.try_into().unwrap()))
}

#[derive(Clone, Debug)]
pub struct EncHeader {
    pub eph_pub: [u8; 32],
    pub wrapped: Vec<([u8; 32], [u8; 16])>,
    pub nonce: [u8; 8],
    /// offsets inside the image
    pub off_eph: usize,
    pub off_count: usize,
    pub off_nonce: usize,
}

#[derive(Clone, Debug)]
pub struct Header {
    pub len: usize,
    pub layers: u8,
    pub enc: Option<EncHeader>,
}

pub fn parse_header(img: &[u8]) -> Result<Header, String> {
    if img.len() < 9 || &img[..3] != b"MLA" {
        return Err("bad magic".into());
    }
    if u32le(img, 3) != Some(1) {
        return Err("bad version".into());
    }
    let layers = img[7];
    match img[8] {
        0 => Ok(Header { len: 9, layers, enc: None }),
        1 => {
            let mut p = 9;
            let eph: [u8; 32] = img.get(p..p + 32).ok_or("short header")?.try_into().unwrap();
            let off_eph = p;
            p += 32;
            let off_count = p;
            let n = u64le(img, p).ok_or("short header")? as usize;
            p += 8;
            if n > 1 << 20 {
                return Err("absurd recipient count".into());
            }
            let mut wrapped = Vec::new();
            for _ in 0..n {
                let k: [u8; 32] = img.get(p..p + 32).ok_or("short header")?.try_into().unwrap();
                let t: [u8; 16] = img.get(p + 32..p + 48).ok_or("short header")?.try_into().unwrap();
                wrapped.push((k, t));
                p += 48;
            }
            let off_nonce = p;
            let nonce: [u8; 8] = img.get(p..p + 8).ok_or("short header")?.try_into().unwrap();
            p += 8;
            Ok(Header { len: p, layers, enc: Some(EncHeader { eph_pub: eph, wrapped, nonce, off_eph, off_count, off_nonce }) })
        }
        _ => Err("bad option tag".into()),
    }
}

fn gcm_nonce(prefix: &[u8; 8], ctr: u32) -> [u8; 12] {
    let mut n = [0u8; 12];
    n[..8].copy_from_slice(prefix);
    n[8..].copy_from_slice(&ctr.to_be_bytes());
    n
}

fn dh_key(privk: &[u8; 32], pubk: &[u8; 32]) -> [u8; 32] {
    let shared = StaticSecret::from(*privk).diffie_hellman(&PublicKey::from(*pubk));
    let hk = Hkdf::<Sha256>::new(None, shared.as_bytes());
    let mut out = [0u8; 32];
    hk.expand(b"KEY DERIVATION", &mut out).expect("hkdf");
    out
}

pub fn unwrap_key(h: &EncHeader, privk: &[u8; 32]) -> Option<[u8; 32]> {
    let k = dh_key(privk, &h.eph_pub);
    let cipher = Aes256Gcm::new((&k).into());
    for (wk, tag) in &h.wrapped {
        let mut buf = *wk;
        if cipher.decrypt_in_place_detached(b"ECIES NONCE0".into(), b"", &mut buf, tag.into()).is_ok() {
            return Some(buf);
        }
    }
    None
}

/// (ciphertext, tag) of one chunk
pub fn seal_chunk(key: &[u8; 32], nonce: &[u8; 8], idx: u32, plain: &[u8]) -> (Vec<u8>, [u8; 16]) {
    let cipher = Aes256Gcm::new(key.into());
    let mut buf = plain.to_vec();
    let tag = cipher.encrypt_in_place_detached((&gcm_nonce(nonce, idx)).into(), b"", &mut buf).expect("gcm");
    (buf, tag.into())
}

/// Ok(plain) if the tag verifies
pub fn open_chunk(key: &[u8; 32], nonce: &[u8; 8], idx: u32, ct: &[u8], tag: &[u8]) -> Option<Vec<u8>> {
    if tag.len() != TAG {
        return None;
    }
    let cipher = Aes256Gcm::new(key.into());
    let mut buf = ct.to_vec();
    cipher.decrypt_in_place_detached((&gcm_nonce(nonce, idx)).into(), b"", &mut buf, tag.into()).ok()?;
    Some(buf)
}

/// CTR decryption without authentication (GCM encryption of the ciphertext is the plaintext)
pub fn ctr_chunk(key: &[u8; 32], nonce: &[u8; 8], idx: u32, ct: &[u8]) -> Vec<u8> {
    seal_chunk(key, nonce, idx, ct).0
}

#[derive(Clone, Debug, PartialEq)]
pub struct ChunkRange {
    /// offsets relative to the start of the encrypted stream
    pub start: usize,
    pub payload: usize,
    pub tag: usize,
}

/// How a stored encrypted stream of `len` bytes splits into chunks (the last may be partial)
pub fn chunk_ranges(len: usize, chunk: usize) -> Vec<ChunkRange> {
    let mut v = Vec::new();
    let mut p = 0;
    while p < len {
        let avail = len - p;
        if avail >= chunk + TAG {
            v.push(ChunkRange { start: p, payload: chunk, tag: TAG });
            p += chunk + TAG;
        } else {
            // last one: by the format its payload is avail-16 (if that many bytes are there)
            let payload = avail.saturating_sub(TAG);
            v.push(ChunkRange { start: p, payload, tag: avail - payload });
            p = len;
        }
    }
    v
}

pub struct DecStream {
    pub plain: Vec<u8>,
    /// number of leading chunks whose tag verified
    pub verified_chunks: usize,
    /// plaintext bytes carried by those chunks
    pub verified_len: usize,
    pub total_chunks: usize,
}

/// Decrypt a (possibly cut or altered) encrypted stream.
/// `plain` is what an *unauthenticated* sequential reader can obtain: for each
/// chunk position the payload bytes present (up to CHUNK), tags skipped by position.
pub fn decrypt_stream(key: &[u8; 32], nonce: &[u8; 8], stream: &[u8], chunk: usize) -> DecStream {
    let mut plain = Vec::new();
    let mut verified = 0usize;
    let mut verified_len = 0usize;
    let mut still = true;
    let mut idx = 0u32;
    let mut p = 0usize;
    let mut total = 0;
    while p < stream.len() {
        let avail = stream.len() - p;
        let pay = avail.min(chunk);
        let ct = &stream[p..p + pay];
        let tag_avail = (avail - pay).min(TAG);
        // authenticated view: a full chunk needs its 16-byte tag; a short last chunk takes the last 16 bytes as tag
        let ok = if pay == chunk && tag_avail == TAG {
            open_chunk(key, nonce, idx, ct, &stream[p + pay..p + pay + TAG]).is_some()
        } else if pay < chunk && pay >= TAG {
            open_chunk(key, nonce, idx, &ct[..pay - TAG], &ct[pay - TAG..]).is_some()
        } else {
            false
        };
        if still && ok {
            verified += 1;
            verified_len += if pay == chunk { chunk } else { pay - TAG };
        } else {
            still = false;
        }
        // unauthenticated view
        let pt = if pay < chunk && ok {
            // intact short last chunk: its last 16 bytes are the tag
            ctr_chunk(key, nonce, idx, &ct[..pay - TAG])
        } else {
            ctr_chunk(key, nonce, idx, ct)
        };
        plain.extend_from_slice(&pt);
        p += pay + tag_avail;
        idx += 1;
        total += 1;
    }
    DecStream { plain, verified_chunks: verified, verified_len, total_chunks: total }
}

// ------------------------------------------------------------------ compression layer

#[derive(Clone, Debug)]
pub struct CompLayout {
    /// (offset in the compressed stream, compressed size, uncompressed size)
    pub blocks: Vec<(usize, usize, usize)>,
    pub sizes_at: usize,
    pub sizes_len: usize,
    pub last_block_size: u32,
}

pub fn decompress_all(data: &[u8], block: usize) -> Result<(Vec<u8>, CompLayout), String> {
    if data.len() < 4 {
        return Err("compressed stream shorter than its length field".into());
    }
    let flen = u32le(data, data.len() - 4).unwrap() as usize;
    if flen + 4 > data.len() || flen < 12 {
        return Err(format!("bad sizes footer length {flen}"));
    }
    let fat = data.len() - 4 - flen;
    let n = usize::try_from(u64le(data, fat).ok_or("sizes footer")?).map_err(|_| "sizes footer")?;
    if n > data.len() || 8 + 4 * n + 4 != flen {
        return Err(format!("sizes footer length {flen} does not match count {n}"));
    }
    let mut sizes = Vec::new();
    for i in 0..n {
        sizes.push(u32le(data, fat + 8 + 4 * i).ok_or("sizes footer")? as usize);
    }
    let last = u32le(data, fat + 8 + 4 * n).ok_or("sizes footer")?;
    let mut out = Vec::new();
    let mut blocks = Vec::new();
    let mut p = 0usize;
    for (i, sz) in sizes.iter().enumerate() {
        if p.checked_add(*sz).is_none_or(|e| e > fat) {
            return Err("compressed sizes exceed the stream".into());
        }
        let mut dec = Vec::new();
        brotli::Decompressor::new(&data[p..p + sz], 4096).read_to_end(&mut dec).map_err(|e| format!("brotli block {i}: {e}"))?;
        let want = if i + 1 < n { block } else { last as usize };
        if dec.len() != want {
            return Err(format!("block {i} decodes to {} bytes, expected {want}", dec.len()));
        }
        blocks.push((p, *sz, dec.len()));
        out.extend_from_slice(&dec);
        p += sz;
    }
    if p != fat {
        return Err(format!("{} stray bytes between the last block and the sizes footer", fat - p));
    }
    Ok((out, CompLayout { blocks, sizes_at: fat, sizes_len: flen, last_block_size: last }))
}

/// Sizes footer only (no block is decompressed): where each compressed block lies and how long its plaintext is.
/// For streams whose plaintext is too large to materialise.
pub fn comp_layout(data: &[u8], block: usize) -> Result<CompLayout, String> {
    if data.len() < 4 {
        return Err("compressed stream shorter than its length field".into());
    }
    let flen = u32le(data, data.len() - 4).unwrap() as usize;
    if flen + 4 > data.len() || flen < 12 {
        return Err(format!("bad sizes footer length {flen}"));
    }
    let fat = data.len() - 4 - flen;
    let n = usize::try_from(u64le(data, fat).ok_or("sizes footer")?).map_err(|_| "sizes footer")?;
    if n > data.len() || 8 + 4 * n + 4 != flen {
        return Err(format!("sizes footer length {flen} does not match count {n}"));
    }
    let last = u32le(data, fat + 8 + 4 * n).ok_or("sizes footer")?;
    let mut blocks = Vec::new();
    let mut p = 0usize;
    for i in 0..n {
        let sz = u32le(data, fat + 8 + 4 * i).ok_or("sizes footer")? as usize;
        if p.checked_add(sz).is_none_or(|e| e > fat) {
            return Err("compressed sizes exceed the stream".into());
        }
        blocks.push((p, sz, if i + 1 < n { block } else { last as usize }));
        p += sz;
    }
    if p != fat {
        return Err(format!("{} stray bytes between the last block and the sizes footer", fat - p));
    }
    Ok(CompLayout { blocks, sizes_at: fat, sizes_len: flen, last_block_size: last })
}

/// One block of a compressed stream, decompressed on its own
pub fn decompress_block(data: &[u8], lay: &CompLayout, i: usize) -> Result<Vec<u8>, String> {
    let (off, sz, want) = *lay.blocks.get(i).ok_or("no such block")?;
    let mut dec = Vec::new();
    brotli::Decompressor::new(&data[off..off + sz], 4096).read_to_end(&mut dec).map_err(|e| format!("brotli block {i}: {e}"))?;
    if dec.len() != want {
        return Err(format!("block {i} decodes to {} bytes, expected {want}", dec.len()));
    }
    Ok(dec)
}

pub fn compress_all(plain: &[u8], block: usize, level: u32) -> Vec<u8> {
    compress_all_opts(plain, block, level, false)
}

/// `close_full_blocks`: a writer that closes each block the moment it is full: when the plaintext is a non-zero
/// multiple of the block size it ends with one more, EMPTY, block (last_block_size = 0)
pub fn compress_all_opts(plain: &[u8], block: usize, level: u32, close_full_blocks: bool) -> Vec<u8> {
    let mut out = Vec::new();
    let mut sizes: Vec<u32> = Vec::new();
    let mut last = 0u32;
    for piece in plain.chunks(block.max(1)) {
        let before = out.len();
        {
            let mut w = brotli::CompressorWriter::new(&mut out, 4096, level, 22);
            w.write_all(piece).expect("brotli");
        }
        sizes.push((out.len() - before) as u32);
        last = piece.len() as u32;
    }
    if close_full_blocks && !plain.is_empty() && plain.len() % block.max(1) == 0 {
        let before = out.len();
        {
            let mut w = brotli::CompressorWriter::new(&mut out, 4096, level, 22);
            w.write_all(&[]).expect("brotli");
        }
        sizes.push((out.len() - before) as u32);
        last = 0;
    }
    out.extend_from_slice(&(sizes.len() as u64).to_le_bytes());
    for s in &sizes {
        out.extend_from_slice(&s.to_le_bytes());
    }
    out.extend_from_slice(&last.to_le_bytes());
    out.extend_from_slice(&((8 + 4 * sizes.len() + 4) as u32).to_le_bytes());
    out
}

// ------------------------------------------------------------------ file layer

#[derive(Clone, Debug, PartialEq)]
pub enum FBlock {
    Start { off: usize, id: u64, name: Vec<u8> },
    /// `len` announced, `avail` bytes present in the stream (smaller if cut)
    Content { off: usize, id: u64, len: u64, data_at: usize, avail: usize },
    End { off: usize, id: u64, hash: [u8; 32] },
    EndOfArchive { off: usize },
}

impl FBlock {
    pub fn off(&self) -> usize {
        match self {
            FBlock::Start { off, .. } | FBlock::Content { off, .. } | FBlock::End { off, .. } | FBlock::EndOfArchive { off } => *off,
        }
    }
}

#[derive(Clone, Debug, PartialEq)]
pub enum ParseEnd {
    /// end marker seen; position just after it
    Marker(usize),
    /// stream ended (cleanly at a block edge or inside a block)
    Eof { inside_block: bool },
    /// byte that is not a block type
    BadType(usize),
}

/// Sequential, truncation-tolerant parse of the block stream
pub fn parse_blocks(s: &[u8]) -> (Vec<FBlock>, ParseEnd) {
    let mut v = Vec::new();
    let mut p = 0usize;
    loop {
        if p >= s.len() {
            return (v, ParseEnd::Eof { inside_block: false });
        }
        let off = p;
        match s[p] {
            0x00 => {
                let (Some(id), Some(len)) = (u64le(s, p + 1), u64le(s, p + 9)) else { return (v, ParseEnd::Eof { inside_block: true }) };
                let len = len as usize;
                if len > 65536 {
                    return (v, ParseEnd::BadType(p));
                }
                let Some(name) = sl(s, p + 17, len) else { return (v, ParseEnd::Eof { inside_block: true }) };
                v.push(FBlock::Start { off, id, name: name.to_vec() });
                p += 17 + len;
            }
            0x01 => {
                let (Some(id), Some(len)) = (u64le(s, p + 1), u64le(s, p + 9)) else { return (v, ParseEnd::Eof { inside_block: true }) };
                let data_at = p + 17;
                let avail = (s.len() - data_at).min(usize::try_from(len).unwrap_or(usize::MAX));
                v.push(FBlock::Content { off, id, len, data_at, avail });
                if (avail as u64) < len {
                    return (v, ParseEnd::Eof { inside_block: true });
                }
                p = data_at + avail;
            }
            0xFF => {
                let Some(id) = u64le(s, p + 1) else { return (v, ParseEnd::Eof { inside_block: true }) };
                let Some(h) = sl(s, p + 9, 32) else { return (v, ParseEnd::Eof { inside_block: true }) };
                v.push(FBlock::End { off, id, hash: h.try_into().unwrap() });
                p += 41;
            }
            0xFE => {
                v.push(FBlock::EndOfArchive { off });
                return (v, ParseEnd::Marker(p + 1));
            }
            _ => return (v, ParseEnd::BadType(p)),
        }
    }
}

#[derive(Clone, Debug, Default, PartialEq)]
pub struct RecFile {
    pub bytes: Vec<u8>,
    /// an EndOfFile block with a matching hash was seen
    pub complete: bool,
}

/// What the blocks of a (possibly cut) stream carry for each file name
pub fn files_from_blocks(s: &[u8], blocks: &[FBlock]) -> BTreeMap<String, RecFile> {
    let mut names: BTreeMap<u64, String> = BTreeMap::new();
    let mut out: BTreeMap<String, RecFile> = BTreeMap::new();
    for b in blocks {
        match b {
            FBlock::Start { id, name, .. } => {
                let n = String::from_utf8_lossy(name).to_string();
                names.insert(*id, n.clone());
                out.entry(n).or_default();
            }
            FBlock::Content { id, data_at, avail, .. } => {
                if let Some(n) = names.get(id) {
                    out.get_mut(n).unwrap().bytes.extend_from_slice(&s[*data_at..*data_at + *avail]);
                }
            }
            FBlock::End { id, hash, .. } => {
                if let Some(n) = names.get(id) {
                    let f = out.get_mut(n).unwrap();
                    let h: [u8; 32] = Sha256::digest(&f.bytes).into();
                    f.complete = h == *hash;
                }
            }
            FBlock::EndOfArchive { .. } => {}
        }
    }
    out
}

#[derive(Clone, Debug, PartialEq)]
pub struct IndexEntry {
    pub name: String,
    pub offsets: Vec<u64>,
    pub size: u64,
    pub eof_offset: u64,
    /// where this entry starts inside the file-layer stream
    pub at: usize,
}

#[derive(Clone, Debug)]
pub struct Index {
    pub entries: Vec<IndexEntry>,
    pub at: usize,
    pub len: usize,
}

pub fn parse_index(s: &[u8]) -> Result<Index, String> {
    if s.len() < 4 {
        return Err("no index length".into());
    }
    let len = u32le(s, s.len() - 4).unwrap() as usize;
    if len + 4 > s.len() || len < 8 {
        return Err(format!("bad index length {len}"));
    }
    let at = s.len() - 4 - len;
    let mut p = at;
    let n = usize::try_from(u64le(s, p).ok_or("index")?).map_err(|_| "index")?;
    p += 8;
    if n > s.len() {
        return Err("index count exceeds the stream".into());
    }
    let mut entries = Vec::new();
    for _ in 0..n {
        let e_at = p;
        let nl = usize::try_from(u64le(s, p).ok_or("index")?).map_err(|_| "index")?;
        p += 8;
        let name = String::from_utf8(sl(s, p, nl).ok_or("index name")?.to_vec()).map_err(|_| "index name utf8")?;
        p += nl;
        let no = usize::try_from(u64le(s, p).ok_or("index")?).map_err(|_| "index")?;
        p += 8;
        if no > s.len() / 8 {
            return Err("index offsets exceed the stream".into());
        }
        let mut offsets = Vec::new();
        for _ in 0..no {
            offsets.push(u64le(s, p).ok_or("index")?);
            p += 8;
        }
        let size = u64le(s, p).ok_or("index")?;
        let eof_offset = u64le(s, p + 8).ok_or("index")?;
        p += 16;
        entries.push(IndexEntry { name, offsets, size, eof_offset, at: e_at });
    }
    if p != s.len() - 4 {
        return Err("index length does not match its content".into());
    }
    Ok(Index { entries, at, len })
}

// ------------------------------------------------------------------ full decode

#[derive(Clone, Debug)]
pub struct Decoded {
    pub header: Header,
    pub key: Option<[u8; 32]>,
    /// encrypted stream chunk ranges (relative to header end)
    pub chunks: Vec<ChunkRange>,
    /// plaintext of the encryption layer (= stored stream if not encrypted)
    pub enc_plain: Vec<u8>,
    pub comp: Option<CompLayout>,
    /// file-layer stream
    pub stream: Vec<u8>,
    pub blocks: Vec<FBlock>,
    pub marker_at: usize,
    pub index: Index,
    pub files: BTreeMap<String, Vec<u8>>,
}

/// Decode a complete archive strictly by the format description; every
/// chunk tag, block size, hash and index entry is checked.
pub fn decode(img: &[u8], privk: Option<&[u8; 32]>, par: Params) -> Result<Decoded, String> {
    let header = parse_header(img)?;
    let body = &img[header.len..];
    let mut key = None;
    let (enc_plain, chunks) = if header.layers & 1 != 0 {
        let eh = header.enc.as_ref().ok_or("encrypt layer without config")?;
        let k = unwrap_key(eh, privk.ok_or("private key needed")?).ok_or("no recipient matches the private key")?;
        key = Some(k);
        let ranges = chunk_ranges(body.len(), par.chunk);
        let mut plain = Vec::new();
        for (i, r) in ranges.iter().enumerate() {
            if r.tag != TAG {
                return Err(format!("chunk {i} has no complete tag"));
            }
            let ct = &body[r.start..r.start + r.payload];
            let tag = &body[r.start + r.payload..r.start + r.payload + TAG];
            plain.extend(open_chunk(&k, &eh.nonce, i as u32, ct, tag).ok_or(format!("chunk {i}: tag mismatch"))?);
        }
        (plain, ranges)
    } else {
        (body.to_vec(), Vec::new())
    };
    let (stream, comp) = if header.layers & 2 != 0 {
        let (s, l) = decompress_all(&enc_plain, par.block)?;
        (s, Some(l))
    } else {
        (enc_plain.clone(), None)
    };
    let index = parse_index(&stream)?;
    let (blocks, end) = parse_blocks(&stream[..index.at]);
    let marker_at = match end {
        ParseEnd::Marker(p) if p == index.at => p - 1,
        other => return Err(format!("block stream does not end with the end marker right before the index: {other:?}")),
    };
    let rec = files_from_blocks(&stream, &blocks);
    let mut files = BTreeMap::new();
    for (n, f) in rec {
        if !f.complete {
            return Err(format!("file {:?}: missing EndOfFile or hash mismatch", n.chars().take(20).collect::<String>()));
        }
        files.insert(n, f.bytes);
    }
    // index consistency
    if index.entries.len() != files.len() {
        return Err(format!("index has {} entries for {} files", index.entries.len(), files.len()));
    }
    for e in &index.entries {
        let f = files.get(&e.name).ok_or(format!("index names unknown file"))?;
        if e.size != f.len() as u64 {
            return Err(format!("index size {} != {}", e.size, f.len()));
        }
        if !blocks.iter().any(|b| matches!(b, FBlock::End { off, .. } if *off as u64 == e.eof_offset)) {
            return Err("index eof_offset does not point at an EndOfFile block".into());
        }
        for o in &e.offsets {
            if !blocks.iter().any(|b| b.off() as u64 == *o) {
                return Err("index offset does not point at a block".into());
            }
        }
    }
    Ok(Decoded { header, key, chunks, enc_plain, comp, stream, blocks, marker_at, index, files })
}

// ------------------------------------------------------------------ foreign writer

/// File-layer block for the foreign writer
#[derive(Clone, Debug)]
pub enum WBlock {
    Start { id: u64, name: Vec<u8> },
    Content { id: u64, data: Vec<u8> },
    /// announced length differs from the data (hostile)
    ContentLen { id: u64, len: u64, data: Vec<u8> },
    End { id: u64, hash: [u8; 32] },
    EndOfArchive,
    Raw(Vec<u8>),
}

pub fn encode_blocks(blocks: &[WBlock]) -> (Vec<u8>, Vec<usize>) {
    let mut s = Vec::new();
    let mut offs = Vec::new();
    for b in blocks {
        offs.push(s.len());
        match b {
            WBlock::Start { id, name } => {
                s.push(0);
                s.extend_from_slice(&id.to_le_bytes());
                s.extend_from_slice(&(name.len() as u64).to_le_bytes());
                s.extend_from_slice(name);
            }
            WBlock::Content { id, data } => {
                s.push(1);
                s.extend_from_slice(&id.to_le_bytes());
                s.extend_from_slice(&(data.len() as u64).to_le_bytes());
                s.extend_from_slice(data);
            }
            WBlock::ContentLen { id, len, data } => {
                s.push(1);
                s.extend_from_slice(&id.to_le_bytes());
                s.extend_from_slice(&len.to_le_bytes());
                s.extend_from_slice(data);
            }
            WBlock::End { id, hash } => {
                s.push(0xFF);
                s.extend_from_slice(&id.to_le_bytes());
                s.extend_from_slice(hash);
            }
            WBlock::EndOfArchive => s.push(0xFE),
            WBlock::Raw(r) => s.extend_from_slice(r),
        }
    }
    (s, offs)
}

pub fn encode_index(entries: &[(String, Vec<u64>, u64, u64)]) -> Vec<u8> {
    let mut f = Vec::new();
    f.extend_from_slice(&(entries.len() as u64).to_le_bytes());
    for (name, offsets, size, eof) in entries {
        f.extend_from_slice(&(name.len() as u64).to_le_bytes());
        f.extend_from_slice(name.as_bytes());
        f.extend_from_slice(&(offsets.len() as u64).to_le_bytes());
        for o in offsets {
            f.extend_from_slice(&o.to_le_bytes());
        }
        f.extend_from_slice(&size.to_le_bytes());
        f.extend_from_slice(&eof.to_le_bytes());
    }
    let l = f.len() as u32;
    f.extend_from_slice(&l.to_le_bytes());
    f
}

/// A well-formed block stream + index for `files` written with the given
/// interleaving `plan`: a list of (file index, piece length) steps; files are
/// started lazily at their first piece and ended after their last.
pub fn well_formed_stream(files: &[(String, Vec<u8>)], plan: &[(usize, usize)]) -> Vec<u8> {
    let ids: Vec<u64> = (0..files.len() as u64).collect();
    well_formed_stream_ids(files, plan, &ids)
}

/// Same, with the file ids chosen by the caller (the format only asks for ids that are unique within the archive:
/// they need not be small or sequential)
pub fn well_formed_stream_ids(files: &[(String, Vec<u8>)], plan: &[(usize, usize)], ids: &[u64]) -> Vec<u8> {
    well_formed_stream_opts(files, plan, ids, false)
}

/// `every_block`: the index lists the offset of EVERY block of a file (as the example in FORMAT.md does) instead of the
/// first block of each continuous run (what the library's writer emits)
pub fn well_formed_stream_opts(files: &[(String, Vec<u8>)], plan: &[(usize, usize)], ids: &[u64], every_block: bool) -> Vec<u8> {
    well_formed_stream_full(files, plan, ids, every_block, false)
}

/// `empty_blocks`: a FileContent block of length 0 is written before every non-empty one of a plan step (the
/// description puts no minimum on a block's length)
pub fn well_formed_stream_full(files: &[(String, Vec<u8>)], plan: &[(usize, usize)], ids: &[u64], every_block: bool, empty_blocks: bool) -> Vec<u8> {
    let mut blocks = Vec::new();
    let mut pos = vec![0usize; files.len()];
    let mut started = vec![false; files.len()];
    let mut ended = vec![false; files.len()];
    let mut owner: Vec<Option<usize>> = Vec::new(); // per block: file index
    let push_end = |blocks: &mut Vec<WBlock>, owner: &mut Vec<Option<usize>>, i: usize| {
        blocks.push(WBlock::End { id: ids[i], hash: Sha256::digest(&files[i].1).into() });
        owner.push(Some(i));
    };
    for &(i, n) in plan {
        if i >= files.len() || ended[i] {
            continue;
        }
        if !started[i] {
            blocks.push(WBlock::Start { id: ids[i], name: files[i].0.as_bytes().to_vec() });
            owner.push(Some(i));
            started[i] = true;
        }
        let take = n.min(files[i].1.len() - pos[i]);
        if take > 0 {
            if empty_blocks {
                blocks.push(WBlock::Content { id: ids[i], data: Vec::new() });
                owner.push(Some(i));
            }
            blocks.push(WBlock::Content { id: ids[i], data: files[i].1[pos[i]..pos[i] + take].to_vec() });
            owner.push(Some(i));
            pos[i] += take;
        }
        if pos[i] == files[i].1.len() && n > 0 {
            push_end(&mut blocks, &mut owner, i);
            ended[i] = true;
        }
    }
    for i in 0..files.len() {
        if !started[i] {
            blocks.push(WBlock::Start { id: ids[i], name: files[i].0.as_bytes().to_vec() });
            owner.push(Some(i));
        }
        if !ended[i] {
            if pos[i] < files[i].1.len() {
                blocks.push(WBlock::Content { id: ids[i], data: files[i].1[pos[i]..].to_vec() });
                owner.push(Some(i));
            }
            push_end(&mut blocks, &mut owner, i);
        }
    }
    blocks.push(WBlock::EndOfArchive);
    owner.push(None);
    let (mut s, offs) = encode_blocks(&blocks);
    // index: offsets of the first block of each continuous run of a file's blocks
    let mut entries = Vec::new();
    for (i, (name, data)) in files.iter().enumerate() {
        let mut offsets = Vec::new();
        let mut eof = 0u64;
        let mut prev: Option<usize> = None;
        for (bi, o) in owner.iter().enumerate() {
            if *o == Some(i) {
                if prev != Some(i) || every_block {
                    offsets.push(offs[bi] as u64);
                }
                if matches!(blocks[bi], WBlock::End { .. }) {
                    eof = offs[bi] as u64;
                }
            }
            if o.is_some() {
                prev = *o;
            }
        }
        entries.push((name.clone(), offsets, data.len() as u64, eof));
    }
    s.extend_from_slice(&encode_index(&entries));
    s
}

pub struct EncSpec {
    pub key: [u8; 32],
    pub nonce: [u8; 8],
    pub eph_priv: [u8; 32],
    pub recipients: Vec<[u8; 32]>, // public keys
}

pub fn encrypt_stream(key: &[u8; 32], nonce: &[u8; 8], plain: &[u8], chunk: usize) -> Vec<u8> {
    let mut out = Vec::new();
    if plain.is_empty() {
        let (_, t) = seal_chunk(key, nonce, 0, b"");
        out.extend_from_slice(&t);
        return out;
    }
    for (i, piece) in plain.chunks(chunk).enumerate() {
        let (ct, tag) = seal_chunk(key, nonce, i as u32, piece);
        out.extend_from_slice(&ct);
        out.extend_from_slice(&tag);
    }
    out
}

pub fn encode_header(layers: u8, enc: Option<&EncSpec>) -> Vec<u8> {
    let mut h = Vec::new();
    h.extend_from_slice(b"MLA");
    h.extend_from_slice(&1u32.to_le_bytes());
    h.push(layers);
    match enc {
        None => h.push(0),
        Some(e) => {
            h.push(1);
            let eph_pub = PublicKey::from(&StaticSecret::from(e.eph_priv));
            h.extend_from_slice(eph_pub.as_bytes());
            h.extend_from_slice(&(e.recipients.len() as u64).to_le_bytes());
            for r in &e.recipients {
                let k = dh_key(&e.eph_priv, r);
                let cipher = Aes256Gcm::new((&k).into());
                let mut buf = e.key;
                let tag = cipher.encrypt_in_place_detached(b"ECIES NONCE0".into(), b"", &mut buf).expect("gcm");
                h.extend_from_slice(&buf);
                h.extend_from_slice(&tag);
            }
            h.extend_from_slice(&e.nonce);
        }
    }
    h
}

/// Wrap a file-layer stream into an archive image (the foreign writer)
pub fn wrap(stream: &[u8], layers: u8, level: u32, enc: Option<&EncSpec>, par: Params) -> Vec<u8> {
    wrap_opts(stream, layers, level, enc, par, false)
}

pub fn wrap_opts(stream: &[u8], layers: u8, level: u32, enc: Option<&EncSpec>, par: Params, close_full_blocks: bool) -> Vec<u8> {
    let mut img = encode_header(layers, if layers & 1 != 0 { enc } else { None });
    let inner = if layers & 2 != 0 { compress_all_opts(stream, par.block, level, close_full_blocks) } else { stream.to_vec() };
    if layers & 1 != 0 {
        let e = enc.expect("enc spec");
        img.extend_from_slice(&encrypt_stream(&e.key, &e.nonce, &inner, par.chunk));
    } else {
        img.extend_from_slice(&inner);
    }
    img
}

pub fn pub_of(privk: &[u8; 32]) -> [u8; 32] {
    *PublicKey::from(&StaticSecret::from(*privk)).as_bytes()
}
