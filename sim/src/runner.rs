//! Coordinator / worker processes, shrinking, replay files, evidence.
use crate::model::{ArcCfg, WOp};
use crate::seams::{self, Sched};
use crate::sut::{LOp, ROp, ReadCfg};
use serde::{Deserialize, Serialize};
use serde_json::{json, Value};
use std::collections::{BTreeMap, BTreeSet};
use std::io::{BufRead, BufReader, Write};
use std::process::{Command, Stdio};
use std::time::Instant;

#[derive(Clone, Copy, PartialEq, Debug)]
pub enum Tier {
    Quick,
    Thorough,
}

impl Tier {
    pub fn name(self) -> &'static str {
        match self {
            Tier::Quick => "quick",
            Tier::Thorough => "thorough",
        }
    }
    pub fn parse(s: &str) -> Tier {
        if s == "thorough" { Tier::Thorough } else { Tier::Quick }
    }
}

/// A fault applied to a stored image (between write and read)
#[derive(Serialize, Deserialize, Clone, Debug, PartialEq)]
pub enum Fault {
    /// keep the first n bytes
    Cut { n: usize },
    Flip { byte: usize, bit: u8 },
    Set { byte: usize, val: u8 },
    /// overwrite `len` bytes at `at` with the little-endian value
    Field { at: usize, len: usize, val: u64 },
    /// encrypted-chunk level edits (indices into the chunk list of the layout map)
    ChunkSwap { i: usize, j: usize },
    ChunkDup { i: usize },
    ChunkDel { i: usize },
    /// take chunk j and store it (also) at index i
    ChunkMove { i: usize, j: usize },
    /// chunk j of a second archive built from the same ops replaces chunk i
    Splice { i: usize, j: usize },
    /// drop the last k bytes
    DropTail { k: usize },
    /// append k bytes of seeded garbage
    Garbage { k: usize, seed: u64 },
    /// replace the image by raw PRNG bytes
    RawBytes { n: usize, seed: u64 },
    /// overwrite `len` bytes at `at` with the same value (a whole tag / nonce / key slot zeroed or set to 0xFF)
    Fill { at: usize, len: usize, val: u8 },
    /// several edits of one image, applied in order
    Multi { faults: Vec<Fault> },
    /// `len` bytes at `from` overwrite the bytes at `to` (a tag or a payload transplanted from another chunk)
    Copy { from: usize, to: usize, len: usize },
}

/// One fully explicit simulated run (what a replay file carries)
#[derive(Serialize, Deserialize, Clone, Debug, PartialEq)]
pub struct Case {
    pub prop: String,
    pub cfg: ArcCfg,
    pub ops: Vec<WOp>,
    #[serde(default = "sched_full")]
    pub sink: Sched,
    #[serde(default)]
    pub rcfg: Option<ReadCfg>,
    #[serde(default)]
    pub rops: Vec<ROp>,
    #[serde(default)]
    pub lops: Vec<LOp>,
    /// explicit faults; empty = the scenario's systematic sweep (if it has one)
    #[serde(default)]
    pub faults: Vec<Fault>,
    /// scenario-specific knobs
    #[serde(default)]
    pub params: BTreeMap<String, i64>,
    /// concrete stored image (hex), for reader-side replays on the `prod` variant
    #[serde(default)]
    pub image_hex: Option<String>,
}

fn sched_full() -> Sched {
    Sched::Full
}

impl Case {
    pub fn new(prop: &str, cfg: ArcCfg, ops: Vec<WOp>) -> Case {
        Case { prop: prop.to_string(), cfg, ops, sink: Sched::Full, rcfg: None, rops: vec![], lops: vec![], faults: vec![], params: BTreeMap::new(), image_hex: None }
    }
    pub fn param(&self, k: &str, default: i64) -> i64 {
        self.params.get(k).copied().unwrap_or(default)
    }
    pub fn summary(&self) -> Value {
        json!({
            "variant": self.cfg.variant, "layers": self.cfg.layer_name(), "level": self.cfg.level,
            "recipients": self.cfg.recipients, "ops": crate::model::ops_short(&self.ops),
            "sink": self.sink.kind(), "faults": format!("{:?}", self.faults).chars().take(160).collect::<String>(),
            "rops": self.rops.len(), "lops": self.lops.len(), "params": self.params,
        })
    }
}

#[derive(Clone, Debug, Serialize, Deserialize)]
pub struct Violation {
    /// which oracle clause failed (stable identifier)
    pub clause: String,
    /// fault-class descriptor used to match known findings (never a line number)
    pub class: String,
    pub msg: String,
    /// the concrete fault (if the scenario sweeps faults itself), to make the replay explicit
    #[serde(default)]
    pub fault: Option<Fault>,
}

impl Violation {
    pub fn new(clause: &str, class: impl Into<String>, msg: impl Into<String>) -> Violation {
        let mut m: String = msg.into();
        if m.len() > 600 {
            let mut e = 600;
            while !m.is_char_boundary(e) {
                e -= 1;
            }
            m.truncate(e);
        }
        Violation { clause: clause.to_string(), class: class.into(), msg: m, fault: None }
    }
    pub fn with_fault(mut self, f: Fault) -> Violation {
        self.fault = Some(f);
        self
    }
}

/// Per-run collector handed to the scenario
pub struct Ctx {
    pub evals: u64,
    pub sigs: BTreeSet<u64>,
    pub sig_examples: Vec<String>,
    pub probes: BTreeMap<String, u64>,
    pub replaying: bool,
    pub tier: Tier,
}

impl Ctx {
    pub fn new(tier: Tier) -> Ctx {
        Ctx { evals: 0, sigs: BTreeSet::new(), sig_examples: Vec::new(), probes: BTreeMap::new(), replaying: false, tier }
    }
    /// one oracle evaluation
    pub fn eval(&mut self) {
        self.evals += 1;
    }
    pub fn evals_n(&mut self, n: u64) {
        self.evals += n;
    }
    /// a state signature reached (distinct non-trivial cases are counted by these)
    pub fn sig(&mut self, s: String) {
        let h = crate::rng::fnv(s.as_bytes());
        if self.sigs.insert(h) && self.sig_examples.len() < 6 {
            self.sig_examples.push(s);
        }
    }
    pub fn probe(&mut self, name: &str) {
        *self.probes.entry(name.to_string()).or_insert(0) += 1;
    }
    pub fn probe_n(&mut self, name: &str, n: u64) {
        if n > 0 {
            *self.probes.entry(name.to_string()).or_insert(0) += n;
        }
    }
}

pub trait Prop: Sync {
    fn id(&self) -> &'static str;
    /// evidence level
    fn level(&self) -> &'static str;
    fn rule(&self) -> String;
    fn assumptions(&self) -> Vec<String>;
    fn runs(&self, tier: Tier) -> u64;
    /// wall-clock cap per worker, seconds (coverage only; never decides a verdict)
    fn budget_s(&self, tier: Tier) -> u64 {
        match tier {
            Tier::Quick => 60,
            Tier::Thorough => 600,
        }
    }
    fn make(&self, seed: u64, run: u64, tier: Tier) -> Case;
    fn exec(&self, case: &Case, ctx: &mut Ctx) -> Vec<Violation>;
    /// simpler candidates, most aggressive first
    fn shrink(&self, case: &Case) -> Vec<Case> {
        crate::shrink::generic(case)
    }
    /// does the event log of this scenario include seam calls (false for `prod` runs)
    fn real_components(&self) -> Vec<String> {
        vec!["mla (all layers, writer, reader, fail-safe reader)".into()]
    }
    fn stubbed_components(&self) -> Vec<String> {
        vec!["byte sink".into(), "byte source".into(), "piece source".into()]
    }
    /// is the event-log digest of runs on the unmodified `prod` build comparable between executions?
    /// (no for library-level scenarios: OS randomness and HashMap order shape the image there)
    fn prod_digest_comparable(&self) -> bool {
        false
    }
    /// seconds without a new run being announced after which a worker is declared hung and killed
    fn stall_limit_s(&self, tier: Tier) -> u64 {
        match tier {
            Tier::Quick => 150,
            Tier::Thorough => 400,
        }
    }
    /// how many workers (default: all cores)
    fn jobs(&self) -> usize {
        16
    }
}

// ------------------------------------------------------------------ known findings

#[derive(Deserialize, Clone, Debug)]
pub struct KnownFinding {
    pub property: String,
    pub clause: String,
    /// exact class, or prefix if it ends with '*'
    pub class: String,
    pub status: String,
    pub what: String,
    #[serde(default)]
    pub commit: Option<String>,
}

pub fn load_known() -> Vec<KnownFinding> {
    let p = verif_dir().join("known_findings.json");
    match std::fs::read_to_string(&p) {
        Ok(s) => {
            let v: Value = serde_json::from_str(&s).unwrap_or_else(|e| harness_error(&format!("known_findings.json: {e}")));
            serde_json::from_value(v["findings"].clone()).unwrap_or_else(|e| harness_error(&format!("known_findings.json: {e}")))
        }
        Err(_) => Vec::new(),
    }
}

pub fn match_known<'a>(known: &'a [KnownFinding], prop: &str, v: &Violation) -> Option<&'a KnownFinding> {
    known.iter().find(|k| {
        k.status == "open"
            && k.property == prop
            && k.clause == v.clause
            && (k.class == v.class || (k.class.ends_with('*') && v.class.starts_with(&k.class[..k.class.len() - 1])))
    })
}

pub fn verif_dir() -> std::path::PathBuf {
    std::env::var("VERIF_DIR").map(Into::into).unwrap_or_else(|_| "/verif".into())
}

pub fn harness_error(msg: &str) -> ! {
    eprintln!("HARNESS-ERROR: {msg}");
    std::process::exit(2);
}

// ------------------------------------------------------------------ worker

#[derive(Serialize, Deserialize, Default)]
struct WorkerReport {
    runs: u64,
    evals: u64,
    sigs: Vec<u64>,
    sig_examples: Vec<String>,
    faults: BTreeMap<String, u64>,
    probes: BTreeMap<String, u64>,
    seam_calls: u64,
    bytes_moved: u64,
    events: u64,
    samples: Vec<Value>,
    digests: Vec<(u64, u64)>,
    known: BTreeMap<String, u64>,
    budget_cut: bool,
    shrink_evals: u64,
}

#[derive(Serialize, Deserialize, Clone)]
pub struct ViolationReport {
    pub run: u64,
    pub violation: Violation,
    pub replay: String,
    pub ops_before: usize,
    pub ops_after: usize,
}

fn exec_checked(prop: &dyn Prop, case: &Case, ctx: &mut Ctx) -> Vec<Violation> {
    match crate::sut::guard(|| prop.exec(case, ctx)) {
        Ok(v) => v,
        Err(p) => harness_error(&format!("scenario {} panicked outside the code under test: {p}", prop.id())),
    }
}

/// Greedy shrinking while the same oracle clause keeps failing
pub fn shrink_case(prop: &dyn Prop, case: &Case, v: &Violation, tier: Tier, max_evals: u64) -> (Case, Violation, u64) {
    let mut cur = case.clone();
    let mut curv = v.clone();
    // make the fault explicit first
    if let Some(f) = &v.fault {
        let mut c = cur.clone();
        c.faults = vec![f.clone()];
        let mut ctx = Ctx::new(tier);
        ctx.replaying = true;
        if let Some(v2) = exec_checked(prop, &c, &mut ctx).into_iter().find(|x| x.clause == v.clause) {
            cur = c;
            curv = v2;
        }
    }
    let mut evals = 0u64;
    // minimisation never decides a verdict; it stops after max_evals candidates or a wall-clock allowance (cases
    // that stream gigabytes cost tens of seconds per candidate), whichever comes first
    let t0 = Instant::now();
    let allowance = match tier {
        Tier::Quick => 90,
        Tier::Thorough => 300,
    };
    'outer: loop {
        for cand in prop.shrink(&cur) {
            if evals >= max_evals || t0.elapsed().as_secs() > allowance {
                break 'outer;
            }
            evals += 1;
            {
                // heartbeat for the coordinator's watchdog
                let mut o = std::io::stdout().lock();
                let _ = writeln!(o, "H");
                let _ = o.flush();
            }
            let mut ctx = Ctx::new(tier);
            ctx.replaying = true;
            let vs = exec_checked(prop, &cand, &mut ctx);
            if let Some(v2) = vs.into_iter().find(|x| x.clause == curv.clause && x.class == curv.class) {
                cur = cand;
                curv = v2;
                if let Some(f) = &curv.fault {
                    if cur.faults.is_empty() {
                        cur.faults = vec![f.clone()];
                    }
                }
                continue 'outer;
            }
        }
        break;
    }
    (cur, curv, evals)
}

/// Does a fresh process replaying `case` die (signal / abort)?
fn dies_in_child(prop: &dyn Prop, case: &Case, v: &Violation, tier: Tier) -> bool {
    let dir = verif_dir().join("replays");
    let _ = std::fs::create_dir_all(&dir);
    let path = dir.join(format!(".shrink-{}-{}.json", prop.id(), std::process::id()));
    let doc = json!({"property": prop.id(), "seed": 0, "run": 0, "tier": tier.name(), "clause": v.clause, "class": v.class, "message": "", "event_log_digest": "0", "case": case});
    if std::fs::write(&path, serde_json::to_string(&doc).unwrap()).is_err() {
        return false;
    }
    let exe = match std::env::current_exe() {
        Ok(e) => e,
        Err(_) => return false,
    };
    // the candidate runs in a child with a deadline of its own: a child that neither ends nor dies within it is
    // killed and counts as "still fails" (the violation being minimised is then a hang)
    let deadline = match tier {
        Tier::Quick => 40,
        Tier::Thorough => 150,
    };
    let died = match Command::new(exe).arg("replay").arg(&path).stdout(Stdio::null()).stderr(Stdio::null()).spawn() {
        Ok(mut child) => {
            let t0 = Instant::now();
            loop {
                match child.try_wait() {
                    Ok(Some(s)) => break s.code().is_none() || !matches!(s.code(), Some(0 | 1 | 2)),
                    Ok(None) => {
                        if t0.elapsed().as_secs() > deadline {
                            let _ = child.kill();
                            let _ = child.wait();
                            break true;
                        }
                        std::thread::sleep(std::time::Duration::from_millis(20));
                    }
                    Err(_) => break false,
                }
            }
        }
        Err(_) => false,
    };
    let _ = std::fs::remove_file(&path);
    died
}

/// Shrinking for cases that kill the process: every candidate is replayed in a child
pub fn shrink_crash(prop: &dyn Prop, case: &Case, v: &Violation, tier: Tier, max_evals: u64) -> Case {
    if !dies_in_child(prop, case, v, tier) {
        return case.clone(); // not reproducible in isolation: keep the generated case
    }
    let mut cur = case.clone();
    let mut evals = 0;
    // same wall-clock allowance as shrink_case: minimisation never decides a verdict
    let t0 = Instant::now();
    let allowance = match tier {
        Tier::Quick => 90,
        Tier::Thorough => 300,
    };
    'outer: loop {
        for cand in prop.shrink(&cur) {
            if evals >= max_evals || t0.elapsed().as_secs() > allowance {
                break 'outer;
            }
            evals += 1;
            if dies_in_child(prop, &cand, v, tier) {
                cur = cand;
                continue 'outer;
            }
        }
        break;
    }
    cur
}

pub fn write_replay(prop: &str, seed: u64, run: u64, case: &Case, v: &Violation, tier: Tier, digest: u64) -> String {
    let dir = verif_dir().join("replays");
    let _ = std::fs::create_dir_all(&dir);
    let path = dir.join(format!("{prop}-{seed}-{run}.json"));
    let doc = json!({
        "property": prop, "seed": seed, "run": run, "tier": tier.name(),
        "clause": v.clause, "class": v.class, "message": v.msg,
        "event_log_digest": format!("{digest:016x}"),
        "case": case,
    });
    std::fs::write(&path, serde_json::to_string_pretty(&doc).unwrap()).unwrap_or_else(|e| harness_error(&format!("cannot write replay: {e}")));
    path.to_string_lossy().to_string()
}

/// Worker process: runs r = k, k+J, k+2J, ... < N
pub fn worker(prop: &dyn Prop, tier: Tier, seed: u64, k: u64, j: u64, want_digests: bool, runs_override: Option<u64>) {
    let known = load_known();
    let survey = std::env::var("MLASIM_SURVEY").is_ok();
    let n = runs_override.unwrap_or_else(|| prop.runs(tier));
    let budget = std::time::Duration::from_secs(prop.budget_s(tier));
    let t0 = Instant::now();
    let mut rep = WorkerReport::default();
    let out = std::io::stdout();
    let mut sigs: BTreeSet<u64> = BTreeSet::new();
    let mut unknown_found = 0;
    let mut survey_map: BTreeMap<String, (String, u64)> = BTreeMap::new();
    // MLASIM_RUN_OFFSET: explore runs [offset, offset + n) instead of [0, n) (determinism self-test of later runs)
    let offset: u64 = std::env::var("MLASIM_RUN_OFFSET").ok().and_then(|s| s.parse().ok()).unwrap_or(0);
    let n = n + offset;
    let mut r = k + offset;
    while r < n {
        if t0.elapsed() > budget {
            rep.budget_cut = true;
            break;
        }
        {
            let mut o = out.lock();
            let _ = writeln!(o, "S {r}");
            let _ = o.flush();
        }
        let case = prop.make(seed, r, tier);
        seams::log_reset(case.cfg.variant != "prod");
        let mut ctx = Ctx::new(tier);
        let viols = exec_checked(prop, &case, &mut ctx);
        let log = seams::log_take();
        rep.runs += 1;
        rep.evals += ctx.evals;
        rep.seam_calls += log.seam_calls;
        rep.bytes_moved += log.bytes_moved;
        rep.events += log.n_events;
        for (f, c) in &log.faults {
            *rep.faults.entry((*f).to_string()).or_insert(0) += c;
        }
        for (p, c) in &ctx.probes {
            *rep.probes.entry(p.clone()).or_insert(0) += c;
        }
        for s in &ctx.sigs {
            sigs.insert(*s);
        }
        for s in ctx.sig_examples {
            if rep.sig_examples.len() < 6 {
                rep.sig_examples.push(s);
            }
        }
        if rep.samples.len() < 3 {
            let mut s = case.summary();
            s["run"] = json!(r);
            rep.samples.push(s);
        }
        if want_digests {
            let comparable = case.cfg.variant != "prod" || prop.prod_digest_comparable();
            rep.digests.push((r, if comparable { log.digest } else { 0 }));
        }
        let mut seen: BTreeSet<(String, String)> = BTreeSet::new();
        for v in viols {
            if !seen.insert((v.clause.clone(), v.class.clone())) {
                continue;
            }
            if let Some(kf) = match_known(&known, prop.id(), &v) {
                *rep.known.entry(format!("{} [{}|{}]", kf.what, kf.clause, kf.class)).or_insert(0) += 1;
                continue;
            }
            if survey {
                let key = format!("SURVEY {} | {}", v.clause, v.class);
                if let Some((_, c)) = survey_map.get_mut(&key) {
                    *c += 1;
                } else {
                    survey_map.insert(key, (format!("run {r}: {}", v.msg.chars().take(300).collect::<String>().replace('\n', " ")), 1u64));
                }
                // keep one example per class only
                continue;
            }
            // unknown violation: shrink, write replay, report
            let (small, sv, n_ev) = shrink_case(prop, &case, &v, tier, 300);
            rep.shrink_evals += n_ev;
            seams::log_reset(small.cfg.variant != "prod");
            let mut c2 = Ctx::new(tier);
            c2.replaying = true;
            let _ = exec_checked(prop, &small, &mut c2);
            let d = seams::log_take().digest;
            let path = write_replay(prop.id(), seed, r, &small, &sv, tier, d);
            let vr = ViolationReport { run: r, violation: sv, replay: path, ops_before: case.ops.len(), ops_after: small.ops.len() };
            let mut o = out.lock();
            let _ = writeln!(o, "V {}", serde_json::to_string(&vr).unwrap());
            let _ = o.flush();
            unknown_found += 1;
            // one report per run: the replay file is per run
            break;
        }
        if unknown_found >= 3 {
            break;
        }
        r += j;
    }
    for (k2, (ex, c)) in survey_map {
        rep.known.insert(format!("{k2} | {ex}"), c);
    }
    rep.sigs = sigs.into_iter().collect();
    let mut o = out.lock();
    let _ = writeln!(o, "R {}", serde_json::to_string(&rep).unwrap());
    let _ = o.flush();
}

// ------------------------------------------------------------------ coordinator

pub struct CheckResult {
    pub violations: Vec<ViolationReport>,
    pub crashed: Vec<(u64, String)>,
    pub digests: BTreeMap<u64, u64>,
}

pub fn coordinate(prop: &dyn Prop, tier: Tier, seed: u64, jobs: usize, want_digests: bool, write_evidence: bool, runs_override: Option<u64>) -> CheckResult {
    let t0 = Instant::now();
    let exe = std::env::current_exe().unwrap_or_else(|e| harness_error(&format!("current_exe: {e}")));
    let jobs = jobs.max(1);
    let mut children = Vec::new();
    for k in 0..jobs {
        let mut cmd = Command::new(&exe);
        cmd.arg("worker").arg(prop.id()).arg(tier.name()).arg(seed.to_string()).arg(k.to_string()).arg(jobs.to_string());
        cmd.arg(if want_digests { "digests" } else { "nodigests" });
        cmd.arg(runs_override.map(|n| n.to_string()).unwrap_or_else(|| "-".into()));
        cmd.stdout(Stdio::piped()).stderr(Stdio::piped()).stdin(Stdio::null());
        let child = cmd.spawn().unwrap_or_else(|e| harness_error(&format!("spawn worker: {e}")));
        children.push((k, child));
    }
    // read each worker's stdout in a thread; a watchdog kills a worker that announces no new run for too long
    // (last resort for CPU-only loops: a loop that touches the seams is stopped by the step budget instead)
    let stall_limit = prop.stall_limit_s(tier);
    let t_start = Instant::now();
    let mut handles = Vec::new();
    for (k, mut child) in children {
        let stdout = child.stdout.take().unwrap();
        let stderr = child.stderr.take().unwrap();
        let child = std::sync::Arc::new(std::sync::Mutex::new(child));
        let last = std::sync::Arc::new(std::sync::atomic::AtomicU64::new(0));
        let done = std::sync::Arc::new(std::sync::atomic::AtomicBool::new(false));
        let hung = std::sync::Arc::new(std::sync::atomic::AtomicBool::new(false));
        {
            let (child, last, done, hung) = (child.clone(), last.clone(), done.clone(), hung.clone());
            std::thread::spawn(move || loop {
                std::thread::sleep(std::time::Duration::from_millis(500));
                if done.load(std::sync::atomic::Ordering::Relaxed) {
                    break;
                }
                let now = t_start.elapsed().as_secs();
                if now.saturating_sub(last.load(std::sync::atomic::Ordering::Relaxed)) > stall_limit {
                    hung.store(true, std::sync::atomic::Ordering::Relaxed);
                    if let Ok(mut c) = child.lock() {
                        let _ = c.kill();
                    }
                    break;
                }
            });
        }
        handles.push(std::thread::spawn(move || {
            let errh = std::thread::spawn(move || {
                let mut s = String::new();
                let _ = std::io::Read::read_to_string(&mut BufReader::new(stderr), &mut s);
                s
            });
            let mut last_start: Option<u64> = None;
            let mut viols: Vec<ViolationReport> = Vec::new();
            let mut report: Option<WorkerReport> = None;
            for line in BufReader::new(stdout).lines() {
                let Ok(line) = line else { break };
                last.store(t_start.elapsed().as_secs(), std::sync::atomic::Ordering::Relaxed);
                if let Some(r) = line.strip_prefix("S ") {
                    last_start = r.trim().parse().ok();
                } else if let Some(v) = line.strip_prefix("V ") {
                    if let Ok(v) = serde_json::from_str::<ViolationReport>(v) {
                        viols.push(v);
                    }
                } else if let Some(r) = line.strip_prefix("R ") {
                    report = serde_json::from_str(r).ok();
                }
            }
            done.store(true, std::sync::atomic::Ordering::Relaxed);
            let status = child.lock().ok().and_then(|mut c| c.wait().ok());
            let mut err = errh.join().unwrap_or_default();
            if hung.load(std::sync::atomic::Ordering::Relaxed) {
                err.push_str(&format!("\nno progress for more than {stall_limit} s: the operation does not terminate (killed by the watchdog)"));
            }
            (k, last_start, viols, report, status, err)
        }));
    }
    let mut total = WorkerReport::default();
    let mut sigs: BTreeSet<u64> = BTreeSet::new();
    let mut violations: Vec<ViolationReport> = Vec::new();
    let mut crashed: Vec<(u64, String)> = Vec::new();
    let mut digests = BTreeMap::new();
    let mut harness_failed: Option<String> = None;
    for h in handles {
        let (k, last_start, viols, report, status, err) = h.join().unwrap();
        violations.extend(viols);
        let ok = status.map(|s| s.success()).unwrap_or(false);
        match report {
            Some(r) if ok => {
                total.runs += r.runs;
                total.evals += r.evals;
                total.seam_calls += r.seam_calls;
                total.bytes_moved += r.bytes_moved;
                total.events += r.events;
                total.shrink_evals += r.shrink_evals;
                total.budget_cut |= r.budget_cut;
                for s in r.sigs {
                    sigs.insert(s);
                }
                for (f, c) in r.faults {
                    *total.faults.entry(f).or_insert(0) += c;
                }
                for (f, c) in r.probes {
                    *total.probes.entry(f).or_insert(0) += c;
                }
                for (f, c) in r.known {
                    *total.known.entry(f).or_insert(0) += c;
                }
                for s in r.samples {
                    if total.samples.len() < 5 {
                        total.samples.push(s);
                    }
                }
                for s in r.sig_examples {
                    if total.sig_examples.len() < 8 {
                        total.sig_examples.push(s);
                    }
                }
                for (r, d) in r.digests {
                    digests.insert(r, d);
                }
            }
            _ => {
                let code = status.and_then(|s| s.code());
                if code == Some(2) {
                    harness_failed = Some(format!("worker {k}: {}", err.trim()));
                } else {
                    // the worker died (signal / abort): the announced run is the suspect
                    let what = format!("worker {k} died ({status:?}) during run {last_start:?}: {}", err.lines().last().unwrap_or(""));
                    crashed.push((last_start.unwrap_or(u64::MAX), what));
                }
            }
        }
    }
    if let Some(e) = harness_failed {
        harness_error(&e);
    }
    violations.sort_by_key(|v| v.run);
    crashed.sort();
    let wall = t0.elapsed().as_secs_f64();
    if write_evidence {
        if total.samples.is_empty() {
            // every worker died before reporting (a crash violation): describe the first generated case all the same
            let first = std::env::var("MLASIM_RUN_OFFSET").ok().and_then(|v| v.parse::<u64>().ok()).unwrap_or(0);
            let mut s = prop.make(seed, first, tier).summary();
            s["run"] = json!(first);
            total.samples.push(s);
        }
        let distinct = sigs.len() as u64;
        let ev = json!({
            "property_id": prop.id(),
            "tier": tier.name(),
            "seed": seed,
            "level": prop.level(),
            "coverage": {
                "evaluations": total.evals.max(1),
                "distinct_nontrivial": distinct,
                "rule": prop.rule(),
                "samples": total.samples,
                "signature_examples": total.sig_examples,
                "simulated_runs": total.runs,
                "runs_planned": runs_override.unwrap_or_else(|| prop.runs(tier)),
                "runs_per_hour": if wall > 0.0 { (total.runs as f64 / wall * 3600.0) as u64 } else { 0 },
                "seeds": format!("VERIF_SEED={seed}; run r of this property derives all choices from H(seed, property, r, stream)"),
                "simulated_time": {
                    "note": "the code has no clock; simulated time is reported as calls made at the I/O seams",
                    "seam_calls": total.seam_calls, "bytes_moved": total.bytes_moved, "events_logged": total.events,
                },
                "faults_fired": total.faults,
                "reach_probes": total.probes,
                "known_findings_seen": total.known,
                "shrink_evaluations": total.shrink_evals,
                "wall_budget_cut": total.budget_cut,
                "workers": jobs,
                "worker_crashes": crashed.iter().map(|c| c.1.clone()).collect::<Vec<_>>(),
                "real_components": prop.real_components(),
                "stubbed_components": prop.stubbed_components(),
                "exhaustive": false,
            },
            "assumptions": prop.assumptions(),
            "wall_s": wall,
            "violations": violations.len() + crashed.len(),
        });
        let dir = verif_dir().join("evidence");
        let _ = std::fs::create_dir_all(&dir);
        let p = dir.join(format!("{}.json", prop.id()));
        std::fs::write(&p, serde_json::to_string_pretty(&ev).unwrap()).unwrap_or_else(|e| harness_error(&format!("evidence: {e}")));
        for (what, n) in &total.known {
            println!("KNOWN-FINDING: property={} {} (seen {} times)", prop.id(), what, n);
        }
        println!(
            "{} {}: runs={} evals={} distinct={} seam_calls={} faults={:?} wall={:.1}s",
            prop.id(), tier.name(), total.runs, total.evals, distinct, total.seam_calls, total.faults, wall
        );
    }
    CheckResult { violations, crashed, digests }
}

pub fn replay_file(path: &str, props: &[&'static dyn Prop]) -> i32 {
    let s = std::fs::read_to_string(path).unwrap_or_else(|e| harness_error(&format!("replay {path}: {e}")));
    let doc: Value = serde_json::from_str(&s).unwrap_or_else(|e| harness_error(&format!("replay {path}: {e}")));
    let pid = doc["property"].as_str().unwrap_or("");
    let Some(prop) = props.iter().find(|p| p.id() == pid) else { harness_error(&format!("unknown property {pid}")) };
    let case: Case = serde_json::from_value(doc["case"].clone()).unwrap_or_else(|e| harness_error(&format!("replay case: {e}")));
    let tier = Tier::parse(doc["tier"].as_str().unwrap_or("quick"));
    seams::log_reset(case.cfg.variant != "prod");
    let mut ctx = Ctx::new(tier);
    ctx.replaying = true;
    let vs = exec_checked(*prop, &case, &mut ctx);
    let d = seams::log_take().digest;
    let want = doc["clause"].as_str().unwrap_or("");
    println!("replay: event_log_digest={d:016x} (recorded {})", doc["event_log_digest"].as_str().unwrap_or("?"));
    if let Some(v) = vs.iter().find(|v| v.clause == want).or(vs.first()) {
        println!("VIOLATION property={pid} replay={path}");
        println!("  clause={} class={} : {}", v.clause, v.class, v.msg);
        1
    } else {
        println!("replay: no violation");
        0
    }
}
