//! The seams the simulator owns: byte sink ("disk" of the writer), byte source
//! ("disk" of the readers), per-append piece source, counting allocator, event log.
use crate::rng::Rng;
use serde::{Deserialize, Serialize};
use std::alloc::{GlobalAlloc, Layout, System};
use std::cell::RefCell;
use std::collections::BTreeMap;
use std::hash::Hasher;
use std::io::{self, Read, Seek, SeekFrom, Write};
use std::rc::Rc;
use std::sync::atomic::{AtomicUsize, Ordering};

// ------------------------------------------------------------------ event log

thread_local! {
    static LOG: RefCell<EventLog> = RefCell::new(EventLog::new());
}

/// Per-run event log. Only a running digest (SipHash with fixed keys) and
/// counters are kept; logging never draws from a PRNG nor reads a clock.
pub struct EventLog {
    h: std::collections::hash_map::DefaultHasher,
    pub seam_events: bool,
    pub n_events: u64,
    pub seam_calls: u64,
    pub bytes_moved: u64,
    pub faults: BTreeMap<&'static str, u64>,
}

impl EventLog {
    fn new() -> Self {
        #[allow(deprecated)]
        let h = std::collections::hash_map::DefaultHasher::new();
        EventLog { h, seam_events: true, n_events: 0, seam_calls: 0, bytes_moved: 0, faults: BTreeMap::new() }
    }
}

pub fn log_reset(seam_events: bool) {
    LOG.with(|l| {
        let mut l = l.borrow_mut();
        *l = EventLog::new();
        l.seam_events = seam_events;
    });
}

/// Observation at plaintext level (always logged)
pub fn log_obs(kind: &str, data: &[u8]) {
    LOG.with(|l| {
        let mut l = l.borrow_mut();
        l.n_events += 1;
        l.h.write(kind.as_bytes());
        l.h.write_u64(data.len() as u64);
        l.h.write(data);
    });
}

pub fn log_num(kind: &str, a: u64, b: u64) {
    LOG.with(|l| {
        let mut l = l.borrow_mut();
        l.n_events += 1;
        l.h.write(kind.as_bytes());
        l.h.write_u64(a);
        l.h.write_u64(b);
    });
}

fn log_seam(kind: u8, req: u64, ret: u64) {
    LOG.with(|l| {
        let mut l = l.borrow_mut();
        l.seam_calls += 1;
        if matches!(kind, b'r' | b'w' | b'p') {
            l.bytes_moved = l.bytes_moved.wrapping_add(ret);
        }
        if l.seam_events {
            l.n_events += 1;
            l.h.write_u8(kind);
            l.h.write_u64(req);
            l.h.write_u64(ret);
        }
    });
}

/// A fault kind actually fired (the faulty path was exercised)
pub fn fired(kind: &'static str) {
    LOG.with(|l| *l.borrow_mut().faults.entry(kind).or_insert(0) += 1);
}

pub fn fired_n(kind: &'static str, n: u64) {
    if n > 0 {
        LOG.with(|l| *l.borrow_mut().faults.entry(kind).or_insert(0) += n);
    }
}

pub struct LogSummary {
    pub digest: u64,
    pub n_events: u64,
    pub seam_calls: u64,
    pub bytes_moved: u64,
    pub faults: BTreeMap<&'static str, u64>,
}

pub fn log_take() -> LogSummary {
    LOG.with(|l| {
        let l = l.borrow();
        LogSummary {
            digest: l.h.finish(),
            n_events: l.n_events,
            seam_calls: l.seam_calls,
            bytes_moved: l.bytes_moved,
            faults: l.faults.clone(),
        }
    })
}

// ------------------------------------------------------------------ schedules

/// Transfer schedule of a seam: how many bytes each call moves, and whether it
/// reports an interruption first. A pure function of its own PRNG stream.
#[derive(Serialize, Deserialize, Clone, Debug, PartialEq)]
pub enum Sched {
    /// every call moves everything asked
    Full,
    /// every call moves exactly one byte
    One,
    /// every call moves 1..=min(n,max) bytes
    Rand { seed: u64, max: u64 },
    /// like Rand, and with probability 1/intr_den a call is `Interrupted` (sinks only; bursts up to 3, or - one
    /// schedule in four, decided by the seed - long bursts of up to 40)
    Intr { seed: u64, max: u64, intr_den: u64 },
    /// explicit per-call list (0 = Interrupted), then Full
    List { calls: Vec<u32> },
}

impl Sched {
    pub fn kind(&self) -> &'static str {
        match self {
            Sched::Full => "full",
            Sched::One => "one",
            Sched::Rand { .. } => "rand",
            Sched::Intr { .. } => "intr",
            Sched::List { .. } => "list",
        }
    }
    pub fn is_full(&self) -> bool {
        matches!(self, Sched::Full)
    }
    pub fn make(rng: &mut Rng, allow_intr: bool) -> Sched {
        match rng.below(if allow_intr { 6 } else { 4 }) {
            0 => Sched::Full,
            1 => Sched::One,
            2 => Sched::Rand { seed: rng.u64(), max: *rng.pick(&[2, 3, 7, 16, 100, 5000]) },
            3 => Sched::Rand { seed: rng.u64(), max: 1 << 20 },
            4 => Sched::Intr { seed: rng.u64(), max: *rng.pick(&[1, 3, 16, 1 << 20]), intr_den: *rng.pick(&[2, 4, 10]) },
            _ => Sched::Intr { seed: rng.u64(), max: 1 << 20, intr_den: 3 },
        }
    }
}

/// Run-time state of a schedule
pub struct SchedState {
    sched: Sched,
    rng: Rng,
    idx: usize,
    burst: u32,
    flush_rng: Rng,
    flush_burst: u32,
}

pub enum Xfer {
    Move(usize),
    Interrupted,
}

impl SchedState {
    pub fn new(s: &Sched) -> Self {
        let seed = match s {
            Sched::Rand { seed, .. } | Sched::Intr { seed, .. } => *seed,
            _ => 0,
        };
        SchedState { sched: s.clone(), rng: Rng::new(seed), idx: 0, burst: 0, flush_rng: Rng::new(seed ^ 0xf1a5_4f1a_5400_77aa), flush_burst: 0 }
    }

    /// whether this flush of the destination reports `Interrupted` (Intr schedules only; bursts up to 2;
    /// own PRNG stream, so that the transfer lengths do not depend on how often flush is called)
    pub fn next_flush_interrupted(&mut self) -> bool {
        match &self.sched {
            Sched::Intr { .. } => {
                if self.flush_burst < 2 && self.flush_rng.chance(1, 2) {
                    self.flush_burst += 1;
                    return true;
                }
                self.flush_burst = 0;
                false
            }
            _ => false,
        }
    }

    /// n > 0: bytes the caller offers/asks
    pub fn next(&mut self, n: usize) -> Xfer {
        match &self.sched {
            Sched::Full => Xfer::Move(n),
            Sched::One => Xfer::Move(1),
            Sched::Rand { max, .. } => {
                let m = (*max).min(n as u64).max(1);
                Xfer::Move(self.rng.range(1, m) as usize)
            }
            Sched::Intr { max, intr_den, seed } => {
                // bursts of up to 3 interruptions; one schedule in four (by its seed) has LONG bursts instead: once
                // started, a burst goes on with probability 15/16 per call, up to 40 (a caller that retries a bounded
                // number of times gives up inside them)
                let long = seed % 4 == 0;
                let go_on = if self.burst == 0 || !long { self.burst < 3 && self.rng.chance(1, *intr_den) } else { self.burst < 40 && self.rng.chance(15, 16) };
                if go_on {
                    self.burst += 1;
                    if self.burst == 17 {
                        fired("sink_interrupted_17_times_in_a_row");
                    }
                    return Xfer::Interrupted;
                }
                self.burst = 0;
                let m = (*max).min(n as u64).max(1);
                Xfer::Move(self.rng.range(1, m) as usize)
            }
            Sched::List { calls } => {
                let v = calls.get(self.idx).copied();
                self.idx += 1;
                match v {
                    None => Xfer::Move(n),
                    Some(0) => Xfer::Interrupted,
                    Some(k) => Xfer::Move((k as usize).min(n)),
                }
            }
        }
    }
}

// ------------------------------------------------------------------ sink

#[derive(Default, Clone, Debug)]
pub struct SinkStats {
    pub calls: u64,
    pub short_writes: u64,
    pub interrupted: u64,
    pub dead_errors: u64,
    pub flushes: u64,
    pub torn: bool,
}

pub struct SinkState {
    pub data: Vec<u8>,
    /// bytes accepted so far (== data.len() unless the sink discards or spills)
    pub stored: usize,
    /// false: count only (C15: the harness must not hold the stream on the heap)
    pub keep: bool,
    /// write the accepted bytes to this file instead of `data`
    pub spill: Option<std::fs::File>,
    sched: SchedState,
    /// the device dies once this many bytes are stored (None: never)
    pub die_at: Option<usize>,
    /// the k-th write call (0-based) and all later ones fail
    pub fail_from_call: Option<u64>,
    /// flush fails
    pub flush_fails: bool,
    /// stored length at each successful flush
    pub flush_marks: Vec<usize>,
    pub stats: SinkStats,
}

/// The writer's "disk". Cheap handle; state shared with the harness.
#[derive(Clone)]
pub struct SimSink(pub Rc<RefCell<SinkState>>);

impl SimSink {
    pub fn new(sched: &Sched) -> Self {
        SimSink(Rc::new(RefCell::new(SinkState {
            data: Vec::new(),
            stored: 0,
            keep: true,
            spill: None,
            sched: SchedState::new(sched),
            die_at: None,
            fail_from_call: None,
            flush_fails: false,
            flush_marks: Vec::new(),
            stats: SinkStats::default(),
        })))
    }
    pub fn with_death(sched: &Sched, die_at: Option<usize>) -> Self {
        let s = Self::new(sched);
        s.0.borrow_mut().die_at = die_at;
        s
    }
    pub fn data(&self) -> Vec<u8> {
        self.0.borrow().data.clone()
    }
    pub fn len(&self) -> usize {
        self.0.borrow().stored
    }
    /// counting sink: nothing is retained; with a path the bytes go to that file
    pub fn counting(sched: &Sched, spill: Option<&std::path::Path>) -> Self {
        let s = Self::new(sched);
        {
            let mut st = s.0.borrow_mut();
            st.keep = false;
            st.spill = spill.map(|p| std::fs::File::create(p).expect("spill file"));
        }
        s
    }
    pub fn stats(&self) -> SinkStats {
        self.0.borrow().stats.clone()
    }
    pub fn flush_marks(&self) -> Vec<usize> {
        self.0.borrow().flush_marks.clone()
    }
}

impl Write for SimSink {
    fn write(&mut self, buf: &[u8]) -> io::Result<usize> {
        let mut s = self.0.borrow_mut();
        s.stats.calls += 1;
        if buf.is_empty() {
            log_seam(b'w', 0, 0);
            return Ok(0);
        }
        if let Some(k) = s.fail_from_call {
            if s.stats.calls > k {
                s.stats.dead_errors += 1;
                log_seam(b'e', buf.len() as u64, 0);
                // three ways a destination stops taking bytes: an error, a full device that accepts 0 bytes of a
                // non-empty buffer (callers turn that into WriteZero), a broken pipe
                return match k % 3 {
                    0 => {
                        fired("sink_call_error");
                        Err(io::Error::other("sim: sink error"))
                    }
                    1 => {
                        fired("sink_accepts_zero_bytes");
                        Ok(0)
                    }
                    _ => {
                        fired("sink_broken_pipe");
                        Err(io::Error::new(io::ErrorKind::BrokenPipe, "sim: broken pipe"))
                    }
                };
            }
        }
        let mut n = match s.sched.next(buf.len()) {
            Xfer::Interrupted => {
                s.stats.interrupted += 1;
                fired("sink_interrupted");
                log_seam(b'i', buf.len() as u64, 0);
                return Err(io::Error::new(io::ErrorKind::Interrupted, "sim: interrupted"));
            }
            Xfer::Move(n) => n.min(buf.len()),
        };
        if let Some(d) = s.die_at {
            let room = d.saturating_sub(s.stored);
            if room == 0 {
                s.stats.dead_errors += 1;
                fired("sink_dead");
                log_seam(b'd', buf.len() as u64, 0);
                return Err(io::Error::other("sim: device gone"));
            }
            if room < n {
                n = room;
                s.stats.torn = true;
                fired("sink_torn_write");
            }
        }
        if n < buf.len() {
            s.stats.short_writes += 1;
            fired("sink_short_write");
        }
        if s.keep {
            s.data.extend_from_slice(&buf[..n]);
        } else if let Some(f) = s.spill.as_mut() {
            f.write_all(&buf[..n])?;
        }
        s.stored += n;
        log_seam(b'w', buf.len() as u64, n as u64);
        Ok(n)
    }

    fn flush(&mut self) -> io::Result<()> {
        let mut s = self.0.borrow_mut();
        s.stats.flushes += 1;
        if s.flush_fails {
            fired("sink_flush_error");
            return Err(io::Error::other("sim: flush failed"));
        }
        if let Some(d) = s.die_at {
            if s.stored >= d {
                return Err(io::Error::other("sim: device gone"));
            }
        }
        if s.sched.next_flush_interrupted() {
            s.stats.interrupted += 1;
            fired("sink_flush_interrupted");
            log_seam(b'i', 0, s.stored as u64);
            return Err(io::Error::new(io::ErrorKind::Interrupted, "sim: flush interrupted"));
        }
        let l = s.stored;
        s.flush_marks.push(l);
        log_seam(b'f', 0, l as u64);
        Ok(())
    }
}

// ------------------------------------------------------------------ source

#[derive(Default, Clone, Debug)]
pub struct SrcStats {
    pub reads: u64,
    pub seeks: u64,
    pub short_reads: u64,
    pub errors: u64,
    pub budget_exhausted: bool,
}

/// The readers' "disk": an image plus a transfer schedule, a step budget and
/// an optional injected error at the k-th read.
pub struct SimSource {
    image: Rc<Vec<u8>>,
    /// when set, the bytes come from this file (C15 spill file) instead of `image`
    file: Option<(std::fs::File, u64)>,
    pos: u64,
    sched: SchedState,
    /// sticky error once this many calls were made
    budget: u64,
    /// inject an error at this read call (0-based), once
    pub error_at_read: Option<u64>,
    /// (offset, length, times): this range of the image is seen `times` times in a row (in-memory images only)
    pub replay: Option<(u64, u64, u64)>,
    pub stats: Rc<RefCell<SrcStats>>,
}

impl SimSource {
    pub fn new(image: Rc<Vec<u8>>, sched: &Sched, budget: u64) -> Self {
        SimSource {
            image,
            file: None,
            pos: 0,
            sched: SchedState::new(sched),
            budget,
            error_at_read: None,
            replay: None,
            stats: Rc::new(RefCell::new(SrcStats::default())),
        }
    }
    pub fn from_file(path: &str, sched: &Sched, budget: u64) -> io::Result<Self> {
        let f = std::fs::File::open(path)?;
        let len = f.metadata()?.len();
        let mut s = Self::new(Rc::new(Vec::new()), sched, budget);
        s.file = Some((f, len));
        Ok(s)
    }
    fn total_len(&self) -> u64 {
        self.file.as_ref().map(|f| f.1).unwrap_or(self.image.len() as u64 + self.replay.map_or(0, |(_, l, k)| l * k.saturating_sub(1)))
    }
    /// where in the image the byte at this position of the (replayed) stream lies, and how many bytes follow it there
    fn real_span(&self, vpos: u64) -> (usize, usize) {
        let ilen = self.image.len() as u64;
        match self.replay {
            Some((o, l, k)) if k > 1 && l > 0 && vpos >= o + l => {
                if vpos < o + l * k {
                    let r = (vpos - o) % l;
                    ((o + r) as usize, (l - r) as usize)
                } else {
                    let real = vpos - l * (k - 1);
                    (real as usize, ilen.saturating_sub(real) as usize)
                }
            }
            Some((o, l, _)) => (vpos as usize, (o + l).saturating_sub(vpos) as usize),
            None => (vpos as usize, ilen.saturating_sub(vpos) as usize),
        }
    }
    pub fn stats_handle(&self) -> Rc<RefCell<SrcStats>> {
        self.stats.clone()
    }
    fn tick(&mut self) -> io::Result<()> {
        let st = self.stats.borrow();
        if st.reads + st.seeks >= self.budget {
            drop(st);
            self.stats.borrow_mut().budget_exhausted = true;
            return Err(io::Error::other("sim: step budget exhausted"));
        }
        Ok(())
    }
}

thread_local! {
    /// when set, a source under an `Intr` schedule really reports `ErrorKind::Interrupted` (off by default: the
    /// properties speak of short reads on the source side; C04 turns it on for its safety clauses only)
    static SOURCE_INTERRUPTS: std::cell::Cell<bool> = const { std::cell::Cell::new(false) };
}

thread_local! {
    /// the ROUTE by which a writer configuration reaches its final state (0 = the shortest: new, set_layers, level,
    /// keys); the other routes reach the SAME final layers and keys through other calls of the builder - layers
    /// enabled one by one, a layer disabled and enabled again, everything disabled then set, keys first, keys in
    /// two calls (C07: the secrets of the archive must be as fresh by any route)
    static CFG_ROUTE: std::cell::Cell<u8> = const { std::cell::Cell::new(0) };
}

pub fn set_cfg_route(r: u8) {
    CFG_ROUTE.with(|c| c.set(r));
}

pub fn cfg_route() -> u8 {
    CFG_ROUTE.with(std::cell::Cell::get)
}

pub fn set_source_interrupts(on: bool) {
    SOURCE_INTERRUPTS.with(|c| c.set(on));
}

impl Read for SimSource {
    fn read(&mut self, buf: &mut [u8]) -> io::Result<usize> {
        self.tick()?;
        let call = {
            let mut st = self.stats.borrow_mut();
            st.reads += 1;
            st.reads - 1
        };
        if self.error_at_read == Some(call) {
            self.stats.borrow_mut().errors += 1;
            fired("source_read_error");
            log_seam(b'E', buf.len() as u64, 0);
            return Err(io::Error::other("sim: source error"));
        }
        let len = self.total_len();
        let avail = len.saturating_sub(self.pos).min(usize::MAX as u64) as usize;
        let want = buf.len().min(avail);
        if want == 0 {
            log_seam(b'r', buf.len() as u64, 0);
            return Ok(0);
        }
        let n = match self.sched.next(want) {
            Xfer::Move(n) => n.min(want),
            Xfer::Interrupted => {
                if SOURCE_INTERRUPTS.with(std::cell::Cell::get) {
                    fired("source_interrupted");
                    log_seam(b'I', buf.len() as u64, 0);
                    return Err(io::Error::new(io::ErrorKind::Interrupted, "sim: read interrupted"));
                }
                1
            }
        };
        if n < want {
            self.stats.borrow_mut().short_reads += 1;
            fired("source_short_read");
        }
        if let Some((f, _)) = self.file.as_mut() {
            use std::io::{Seek as _, SeekFrom as SF};
            f.seek(SF::Start(self.pos))?;
            f.read_exact(&mut buf[..n])?;
        } else {
            let (p, room) = self.real_span(self.pos);
            // a replayed range ends here: the call returns what precedes the seam (a short read)
            let n2 = n.min(room);
            buf[..n2].copy_from_slice(&self.image[p..p + n2]);
            self.pos += n2 as u64;
            log_seam(b'r', buf.len() as u64, n2 as u64);
            return Ok(n2);
        }
        self.pos += n as u64;
        log_seam(b'r', buf.len() as u64, n as u64);
        Ok(n)
    }
}

impl Seek for SimSource {
    fn seek(&mut self, pos: SeekFrom) -> io::Result<u64> {
        self.tick()?;
        self.stats.borrow_mut().seeks += 1;
        let len = self.total_len() as i128;
        let target: i128 = match pos {
            SeekFrom::Start(p) => i128::from(p),
            SeekFrom::Current(d) => i128::from(self.pos) + i128::from(d),
            SeekFrom::End(d) => len + i128::from(d),
        };
        if target < 0 || target > i128::from(u64::MAX) {
            log_seam(b's', 0, u64::MAX);
            return Err(io::Error::new(io::ErrorKind::InvalidInput, "sim: seek before start"));
        }
        self.pos = target as u64;
        log_seam(b's', 0, self.pos);
        Ok(self.pos)
    }
}

// ------------------------------------------------------------------ piece source

/// Data source handed to `append_file_content`: the bytes, a schedule, and a
/// possible early end (shorter than announced).
pub struct PieceSource {
    data: Rc<Vec<u8>>,
    pos: usize,
    /// the source ends here (<= data.len())
    end: usize,
    sched: SchedState,
    pub reads: u64,
}

impl PieceSource {
    pub fn new(data: Rc<Vec<u8>>, end: usize, sched: &Sched) -> Self {
        let end = end.min(data.len());
        PieceSource { data, pos: 0, end, sched: SchedState::new(sched), reads: 0 }
    }
}

impl Read for PieceSource {
    fn read(&mut self, buf: &mut [u8]) -> io::Result<usize> {
        self.reads += 1;
        let want = buf.len().min(self.end - self.pos);
        if want == 0 {
            log_seam(b'p', buf.len() as u64, 0);
            return Ok(0);
        }
        let n = match self.sched.next(want) {
            Xfer::Move(n) => n.min(want),
            Xfer::Interrupted => 1,
        };
        if n < want {
            fired("piece_short_read");
        }
        buf[..n].copy_from_slice(&self.data[self.pos..self.pos + n]);
        self.pos += n;
        log_seam(b'p', buf.len() as u64, n as u64);
        Ok(n)
    }
}

/// Generated piece source: n bytes produced on the fly (nothing materialised)
pub struct GenSource {
    left: usize,
    rng: Option<Rng>,
    /// Some(p): byte i of the piece is i % p (as Data::Period)
    period: Option<usize>,
    pos: usize,
}

impl GenSource {
    pub fn new(n: usize, seed: Option<u64>) -> Self {
        GenSource { left: n, rng: seed.map(Rng::new), period: None, pos: 0 }
    }
    pub fn periodic(n: usize, p: usize) -> Self {
        GenSource { left: n, rng: None, period: Some(p.max(1)), pos: 0 }
    }
}

impl Read for GenSource {
    fn read(&mut self, buf: &mut [u8]) -> io::Result<usize> {
        let n = buf.len().min(self.left);
        match (self.rng.as_mut(), self.period) {
            (Some(r), _) => r.fill(&mut buf[..n]),
            (None, Some(p)) => {
                for (k, b) in buf[..n].iter_mut().enumerate() {
                    *b = ((self.pos + k) % p) as u8;
                }
            }
            (None, None) => buf[..n].fill(0),
        }
        self.pos += n;
        self.left -= n;
        log_seam(b'p', buf.len() as u64, n as u64);
        Ok(n)
    }
}

// ------------------------------------------------------------------ allocator

pub struct SimAlloc;

static LIVE: AtomicUsize = AtomicUsize::new(0);
static PEAK: AtomicUsize = AtomicUsize::new(0);
static MAX_SINGLE: AtomicUsize = AtomicUsize::new(0);
/// single requests above this are refused (announce + abort)
pub const ALLOC_REFUSE: usize = 1 << 30;

fn on_alloc(size: usize) {
    if size >= ALLOC_REFUSE {
        // announce on stderr (raw write, no allocation), then die like any OOM
        let msg = b"SIMALLOC-REFUSED single allocation >= 1 GiB\n";
        unsafe {
            libc::write(2, msg.as_ptr().cast(), msg.len());
            libc::abort();
        }
    }
    let live = LIVE.fetch_add(size, Ordering::Relaxed) + size;
    PEAK.fetch_max(live, Ordering::Relaxed);
    MAX_SINGLE.fetch_max(size, Ordering::Relaxed);
}

unsafe impl GlobalAlloc for SimAlloc {
    unsafe fn alloc(&self, l: Layout) -> *mut u8 {
        on_alloc(l.size());
        unsafe { System.alloc(l) }
    }
    unsafe fn alloc_zeroed(&self, l: Layout) -> *mut u8 {
        on_alloc(l.size());
        unsafe { System.alloc_zeroed(l) }
    }
    unsafe fn dealloc(&self, p: *mut u8, l: Layout) {
        LIVE.fetch_sub(l.size(), Ordering::Relaxed);
        unsafe { System.dealloc(p, l) }
    }
    unsafe fn realloc(&self, p: *mut u8, l: Layout, new: usize) -> *mut u8 {
        if new > l.size() {
            on_alloc(new - l.size());
        } else {
            LIVE.fetch_sub(l.size() - new, Ordering::Relaxed);
        }
        unsafe { System.realloc(p, l, new) }
    }
}

pub struct HeapMark {
    live0: usize,
}

/// Start measuring: peak is reset to the current live size
pub fn heap_mark() -> HeapMark {
    let live = LIVE.load(Ordering::Relaxed);
    PEAK.store(live, Ordering::Relaxed);
    MAX_SINGLE.store(0, Ordering::Relaxed);
    HeapMark { live0: live }
}

impl HeapMark {
    /// (peak live bytes above the mark, largest single request) since the mark
    pub fn measure(&self) -> (usize, usize) {
        (PEAK.load(Ordering::Relaxed).saturating_sub(self.live0), MAX_SINGLE.load(Ordering::Relaxed))
    }
}
