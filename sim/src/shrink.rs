//! Generic candidate generation for shrinking a failing case.
use crate::model::{Data, Src, WOp};
use crate::runner::Case;
use crate::seams::Sched;

fn files_of(ops: &[WOp]) -> Vec<usize> {
    let mut v = Vec::new();
    for op in ops {
        if let WOp::Start { f, .. } = op {
            v.push(*f);
        }
    }
    v
}

fn shrink_data(d: &Data) -> Vec<Data> {
    let n = d.len();
    let mut out = Vec::new();
    if n > 0 {
        out.push(d.with_len(0));
        if n > 1 {
            out.push(d.with_len(n / 2));
            out.push(d.with_len(n - 1));
        }
        // nearest power of two below
        let p = n.next_power_of_two() / 2;
        if p > 0 && p < n && p != n / 2 {
            out.push(d.with_len(p));
        }
    }
    if !matches!(d, Data::Zeros { .. }) {
        out.push(Data::Zeros { n });
    }
    out
}

pub fn generic(case: &Case) -> Vec<Case> {
    let mut out: Vec<Case> = Vec::new();
    let ops = &case.ops;
    // 1. drop a whole file
    let files = files_of(ops);
    let n_adds = ops.iter().filter(|o| matches!(o, WOp::Add { .. })).count();
    // (with very many files the range drops of step 2 do this work: one full copy of the case per file is too much)
    if files.len() + n_adds > 1 && files.len() + n_adds <= 64 {
        for f in &files {
            let mut c = case.clone();
            c.ops.retain(|o| !matches!(o, WOp::Start { f: g, .. } | WOp::Append { f: g, .. } | WOp::End { f: g } if g == f));
            out.push(c);
        }
        for (i, o) in ops.iter().enumerate() {
            if matches!(o, WOp::Add { .. }) {
                let mut c = case.clone();
                c.ops.remove(i);
                out.push(c);
            }
        }
    }
    // 2. drop appends / flushes / raw ops: whole ranges first when the history is long (halves, quarters, ... -
    // a candidate is a full copy of the case, so their number stays bounded), single ops when it is short
    let droppable = |o: &WOp| matches!(o, WOp::Append { .. } | WOp::Flush | WOp::AppendRaw { .. } | WOp::EndRaw { .. });
    if files.len() + n_adds > 64 {
        // whole files by ranges of handles / adds: keeps the history valid (a file goes with all its calls)
        let mut ids: Vec<usize> = files.clone();
        ids.sort();
        let mut width = ids.len() / 2;
        while width >= 8 && out.len() < 40 {
            for part in ids.chunks(width) {
                if out.len() >= 40 {
                    break;
                }
                let (lo, hi) = (part[0], part[part.len() - 1]);
                let mut c = case.clone();
                c.ops.retain(|o| !matches!(o, WOp::Start { f: g, .. } | WOp::Append { f: g, .. } | WOp::End { f: g } if *g >= lo && *g <= hi));
                out.push(c);
            }
            width /= 2;
        }
        // and adds by position ranges
        let n = ops.len();
        let mut width = n / 2;
        while width >= 64 && out.len() < 60 {
            let mut start = 0;
            while start < n && out.len() < 60 {
                let end = (start + width).min(n);
                let mut c = case.clone();
                let mut k = 0;
                c.ops.retain(|o| {
                    let inside = k >= start && k < end;
                    k += 1;
                    !(inside && matches!(o, WOp::Add { .. }))
                });
                if c.ops.len() < n {
                    out.push(c);
                }
                start = end;
            }
            width /= 2;
        }
    }
    if ops.len() > 64 {
        let mut width = ops.len() / 2;
        while width >= 16 && out.len() < 48 {
            let mut start = 0;
            while start < ops.len() && out.len() < 48 {
                let end = (start + width).min(ops.len());
                if ops[start..end].iter().any(droppable) {
                    let mut c = case.clone();
                    let mut k = 0;
                    c.ops.retain(|o| {
                        let inside = k >= start && k < end;
                        k += 1;
                        !(inside && droppable(o))
                    });
                    out.push(c);
                }
                start = end;
            }
            width /= 2;
        }
    } else {
        for (i, o) in ops.iter().enumerate() {
            if droppable(o) {
                let mut c = case.clone();
                c.ops.remove(i);
                out.push(c);
            }
        }
    }
    // 3. read / layer histories
    if case.rops.len() > 1 {
        let mut c = case.clone();
        c.rops.truncate(case.rops.len() / 2);
        out.push(c);
    }
    for i in 0..case.rops.len() {
        let mut c = case.clone();
        c.rops.remove(i);
        out.push(c);
    }
    if case.lops.len() > 1 {
        let mut c = case.clone();
        c.lops.truncate(case.lops.len() / 2);
        out.push(c);
        let mut c = case.clone();
        c.lops.drain(..case.lops.len() / 2);
        out.push(c);
    }
    for i in 0..case.lops.len() {
        let mut c = case.clone();
        c.lops.remove(i);
        out.push(c);
    }
    // 4. faults
    if case.faults.len() > 1 {
        for i in 0..case.faults.len() {
            let mut c = case.clone();
            c.faults.remove(i);
            out.push(c);
        }
    }
    // 5. schedules
    if !case.sink.is_full() {
        let mut c = case.clone();
        c.sink = Sched::Full;
        out.push(c);
    }
    if let Some(r) = &case.rcfg {
        if !r.sched.is_full() {
            let mut c = case.clone();
            c.rcfg.as_mut().unwrap().sched = Sched::Full;
            out.push(c);
        }
    }
    if ops.iter().any(|o| matches!(o, WOp::Append { src, .. } | WOp::Add { src, .. } if !src.sched.is_full() || src.extra > 0)) {
        let mut c = case.clone();
        for o in &mut c.ops {
            if let WOp::Append { src, .. } | WOp::Add { src, .. } = o {
                *src = Src { sched: Sched::Full, short_by: src.short_by, extra: 0, stream: false };
            }
        }
        out.push(c);
    }
    // 6. configuration
    if case.cfg.recipients > 1 {
        let mut c = case.clone();
        c.cfg.recipients = 1;
        c.cfg.reader = 0;
        if let Some(r) = c.rcfg.as_mut() {
            if r.keys.len() == 1 {
                r.keys = vec![hex::encode(crate::model::key_bytes(c.cfg.key_seed, 0))];
            }
        }
        out.push(c);
    }
    if case.cfg.comp() && case.cfg.level != 0 {
        let mut c = case.clone();
        c.cfg.level = 0;
        out.push(c);
    }
    // 7. data (of the first pieces only when there are very many)
    for (i, o) in ops.iter().enumerate().take(200) {
        if let WOp::Append { data, .. } | WOp::Add { data, .. } | WOp::AppendRaw { data, .. } = o {
            for d in shrink_data(data) {
                let mut c = case.clone();
                match &mut c.ops[i] {
                    WOp::Append { data, src, .. } | WOp::Add { data, src, .. } => {
                        src.short_by = src.short_by.min(d.len());
                        *data = d;
                    }
                    WOp::AppendRaw { data, .. } => *data = d,
                    _ => {}
                }
                out.push(c);
            }
        }
    }
    out
}
