//! mlasim: deterministic simulation with fault injection for ANSSI-FR/MLA.
mod model;
mod props;
mod refmla;
mod rng;
mod runner;
mod seams;
mod shrink;
mod sut;

use runner::{harness_error, Tier};

#[global_allocator]
static GLOBAL: seams::SimAlloc = seams::SimAlloc;

fn usage() -> ! {
    eprintln!("usage: mlasim check <PROP> <quick|thorough> [--seed N] [--jobs J] [--runs N]\n       mlasim replay <file>\n       mlasim one <PROP> <tier> <seed> <run>\n       mlasim selftest determinism [PROP..]\n       mlasim worker ... (internal)");
    std::process::exit(2);
}

fn find(id: &str) -> &'static dyn runner::Prop {
    props::all().into_iter().find(|p| p.id() == id).unwrap_or_else(|| harness_error(&format!("no scenario for property {id}")))
}

fn opt(args: &[String], name: &str) -> Option<String> {
    args.iter().position(|a| a == name).and_then(|i| args.get(i + 1).cloned())
}

fn real_main() -> i32 {
    sut::install_panic_hook();
    let args: Vec<String> = std::env::args().skip(1).collect();
    if args.is_empty() {
        usage();
    }
    match args[0].as_str() {
        "worker" => {
            if args.len() < 8 {
                usage();
            }
            let prop = find(&args[1]);
            let tier = Tier::parse(&args[2]);
            let seed: u64 = args[3].parse().unwrap_or(1);
            let k: u64 = args[4].parse().unwrap_or(0);
            let j: u64 = args[5].parse().unwrap_or(1);
            let digests = args[6] == "digests";
            let runs = args[7].parse::<u64>().ok();
            runner::worker(prop, tier, seed, k, j, digests, runs);
            0
        }
        "check" => {
            if args.len() < 3 {
                usage();
            }
            let prop = find(&args[1]);
            let tier = Tier::parse(&args[2]);
            let seed: u64 = opt(&args, "--seed").or_else(|| std::env::var("VERIF_SEED").ok()).and_then(|s| s.parse().ok()).unwrap_or(1);
            let jobs: usize = opt(&args, "--jobs").and_then(|s| s.parse().ok()).unwrap_or_else(|| prop.jobs());
            let runs = opt(&args, "--runs").and_then(|s| s.parse().ok());
            let res = runner::coordinate(prop, tier, seed, jobs, false, true, runs);
            let mut code = 0;
            for v in &res.violations {
                println!("VIOLATION property={} replay={}", prop.id(), v.replay);
                println!("  run={} clause={} class={} ops {}->{} : {}", v.run, v.violation.clause, v.violation.class, v.ops_before, v.ops_after, v.violation.msg);
                code = 1;
            }
            for (run, what) in &res.crashed {
                // a dead worker is itself an observation: write the announced case as replay
                let case = prop.make(seed, *run, tier);
                let v = runner::Violation::new("process-died", "crash", what.clone());
                // minimise while a fresh process replaying the candidate still dies
                let case = runner::shrink_crash(prop, &case, &v, tier, 60);
                let path = runner::write_replay(prop.id(), seed, *run, &case, &v, tier, 0);
                println!("VIOLATION property={} replay={}", prop.id(), path);
                println!("  run={run} worker process died: {what}");
                code = 1;
            }
            code
        }
        "c07child" => props::c07::child_main(args.get(1).map(String::as_str).unwrap_or("")),
        "debug-repair" => {
            // debugging aid: repair the (faulted) image of a replay file in both modes and print what comes out
            let doc: serde_json::Value = serde_json::from_str(&std::fs::read_to_string(&args[1]).unwrap()).unwrap();
            let case: runner::Case = serde_json::from_value(doc["case"].clone()).unwrap();
            let s = sut::sut(&case.cfg.variant);
            let sink = seams::SimSink::new(&seams::Sched::Full);
            let _ = s.write(&case.cfg, &case.ops, sink.clone());
            let mut img = sink.data();
            let hlen = if case.cfg.enc() { 57 + 48 * case.cfg.recipients } else { 9 };
            for f in &case.faults {
                img = props::common::apply_fault(&img, f, hlen, s.consts().chunk as usize, None);
            }
            let rcfg = sut::ReadCfg::for_cfg(&case.cfg);
            let ocfg = model::ArcCfg { variant: case.cfg.variant.clone(), layers: 0, level: 0, recipients: 0, reader: 0, rng_seed: 0, key_seed: 0 };
            for auth in [true, false] {
                let out = s.repair(std::rc::Rc::new(img.clone()), &rcfg, auth, &ocfg, &seams::Sched::Full);
                println!("auth={auth}: init={:?} convert={:?} panic={:?} out_len={} src={:?}", out.init, out.convert, out.panic, out.out_image.len(), out.src);
            }
            if case.cfg.enc() && case.cfg.comp() {
                // the same corruption seen by the compression layer alone: compressed stream of the
                // unaltered archive with the fault applied at the same stream offset, wrapped as a
                // compress-only archive, without and with 16 trailing garbage bytes
                let vc = s.consts();
                let lay = props::common::layout_of(&sink.data(), &case.cfg, vc.chunk as usize, vc.block as usize).unwrap();
                let mut cs = lay.dec.enc_plain.clone();
                for f in &case.faults {
                    if let runner::Fault::Flip { byte, bit } = f {
                        let soff = byte - hlen;
                        let p = soff - 16 * (soff / (vc.chunk as usize + 16));
                        cs[p] ^= 1 << bit;
                    }
                }
                let plain_rcfg = sut::ReadCfg { keys: vec![], sched: seams::Sched::Full, budget: u64::MAX / 2, error_at_read: None, spill_path: None, explicit_auth_mode: false, replay: None };
                for extra in [0usize, 16] {
                    let mut im = refmla::encode_header(2, None);
                    im.extend_from_slice(&cs);
                    im.extend(std::iter::repeat(0xA7).take(extra));
                    let out = s.repair(std::rc::Rc::new(im), &plain_rcfg, true, &ocfg, &seams::Sched::Full);
                    println!("compress-only view, {extra} trailing garbage bytes: convert={:?} out_len={}", out.convert, out.out_image.len());
                }
            }
            0
        }
        "inproc" => {
            // run cases [from, to) of one property in this very process (no workers): used under Miri
            if args.len() < 6 {
                usage();
            }
            let prop = find(&args[1]);
            let tier = Tier::parse(&args[2]);
            let seed: u64 = args[3].parse().unwrap_or(1);
            let (from, to): (u64, u64) = (args[4].parse().unwrap_or(0), args[5].parse().unwrap_or(1));
            let mut bad = 0;
            for r in from..to {
                let case = prop.make(seed, r, tier);
                seams::log_reset(case.cfg.variant != "prod");
                let mut ctx = runner::Ctx::new(tier);
                let t = std::time::Instant::now();
                let vs = prop.exec(&case, &mut ctx);
                println!("inproc {} run {r}: evals={} violations={} ms={}", prop.id(), ctx.evals, vs.len(), t.elapsed().as_millis());
                for v in &vs {
                    println!("  {} | {} | {}", v.clause, v.class, v.msg);
                }
                bad += vs.len();
            }
            i32::from(bad > 0)
        }
        "replay" => {
            if args.len() < 2 {
                usage();
            }
            runner::replay_file(&args[1], &props::all())
        }
        "one" => {
            // print the generated case of one run (debugging aid)
            if args.len() < 5 {
                usage();
            }
            let prop = find(&args[1]);
            let case = prop.make(args[3].parse().unwrap_or(1), args[4].parse().unwrap_or(0), Tier::parse(&args[2]));
            println!("{}", serde_json::to_string_pretty(&case).unwrap());
            0
        }
        "selftest" => {
            let ids: Vec<String> = if args.len() > 2 { args[2..].to_vec() } else { props::all().iter().map(|p| p.id().to_string()).collect() };
            let mut bad = 0;
            for id in ids {
                let prop = find(&id);
                let n = prop.runs(Tier::Quick).min(match id.as_str() { "C15" | "C17" => 32, "C07" => 64, "C03" | "C08" => 200, _ => 400 });
                for offset in [0u64, prop.runs(Tier::Quick).saturating_sub(n)] {
                    // SAFETY: single-threaded at this point; the variable is read by the spawned workers
                    unsafe { std::env::set_var("MLASIM_RUN_OFFSET", offset.to_string()) };
                    let a = runner::coordinate(prop, Tier::Quick, 1, 16, true, false, Some(n));
                    let b = runner::coordinate(prop, Tier::Quick, 1, 3, true, false, Some(n));
                    let same = a.digests == b.digests && a.digests.len() as u64 == n;
                    let skipped = a.digests.values().filter(|d| **d == 0).count();
                    println!("determinism {id}: runs {offset}..{} executed twice (16 and 3 worker processes), {} on the prod build not comparable, {}", offset + n, skipped, if same { "identical event logs" } else { "DIVERGENCE" });
                    if !same {
                        for (r, d) in &a.digests {
                            if b.digests.get(r) != Some(d) {
                                println!("  run {r}: {d:016x} vs {:?}", b.digests.get(r));
                                break;
                            }
                        }
                        bad += 1;
                    }
                    if offset == prop.runs(Tier::Quick).saturating_sub(n) {
                        break;
                    }
                }
            }
            if bad > 0 { 2 } else { 0 }
        }
        _ => usage(),
    }
}

fn main() {
    // every library call runs on a thread with the stack size of a normal main thread (8 MiB)
    let h = std::thread::Builder::new().stack_size(8 << 20).spawn(real_main).expect("spawn");
    let code = h.join().unwrap_or_else(|_| {
        eprintln!("HARNESS-ERROR: simulator thread panicked: {:?}", sut::LAST_PANIC_GLOBAL.lock().ok().and_then(|g| g.clone()));
        2
    });
    std::process::exit(code);
}
