//! Adapter between the simulator (plain data) and the four library variants.
//! `sut_body.rs` is compiled once per variant with `mla` aliased to that variant.
use crate::model::{ArcCfg, WOp};
use crate::seams::{Sched, SimSink, SinkStats, SrcStats};
use serde::{Deserialize, Serialize};
use std::cell::RefCell;
use std::collections::BTreeMap;
use std::rc::Rc;

include!("../gen/variants.rs");

pub fn consts_of(name: &str) -> &'static VariantConsts {
    VARIANTS.iter().find(|v| v.name == name).unwrap_or_else(|| panic!("unknown variant {name}"))
}

impl VariantConsts {
    pub fn model_consts(&self) -> crate::model::Consts {
        crate::model::Consts {
            cipher_buf: self.cipher_buf as usize,
            chunk: self.chunk as usize,
            block: self.block as usize,
            repair_cache: self.repair_cache as usize,
            failsafe_buf: self.failsafe_buf as usize,
        }
    }
}

// ---------------------------------------------------------------- panic capture

thread_local! {
    static LAST_PANIC: RefCell<Option<String>> = const { RefCell::new(None) };
}

pub static LAST_PANIC_GLOBAL: std::sync::Mutex<Option<String>> = std::sync::Mutex::new(None);

pub fn install_panic_hook() {
    std::panic::set_hook(Box::new(|info| {
        let loc = info.location().map(|l| format!("{}:{}", l.file(), l.line())).unwrap_or_default();
        let msg = if let Some(s) = info.payload().downcast_ref::<&str>() {
            (*s).to_string()
        } else if let Some(s) = info.payload().downcast_ref::<String>() {
            s.clone()
        } else {
            "<non-string panic>".to_string()
        };
        if let Ok(mut g) = LAST_PANIC_GLOBAL.lock() {
            *g = Some(format!("{msg} @ {loc}"));
        }
        LAST_PANIC.with(|p| *p.borrow_mut() = Some(format!("{msg} @ {loc}")));
    }));
}

/// Run `f`; a panic becomes `Err(message @ file:line)`
pub fn guard<T>(f: impl FnOnce() -> T) -> Result<T, String> {
    match std::panic::catch_unwind(std::panic::AssertUnwindSafe(f)) {
        Ok(v) => Ok(v),
        Err(_) => Err(LAST_PANIC.with(|p| p.borrow_mut().take()).unwrap_or_else(|| "panic".into())),
    }
}

// ---------------------------------------------------------------- plain data types

#[derive(Debug, Clone)]
pub struct WriteOut {
    /// one entry per op executed (execution stops at the first panic only)
    pub results: Vec<Result<u64, String>>,
    /// flush marks: (op index, stored length when that flush returned Ok)
    pub flush_marks: Vec<(usize, usize)>,
    pub panic: Option<String>,
    pub from_config_err: Option<String>,
    pub enc_params: Option<([u8; 32], [u8; 8])>,
}

#[derive(Serialize, Deserialize, Clone, Debug, PartialEq)]
pub struct ReadCfg {
    /// candidate private keys, in the order given to the reader
    pub keys: Vec<String>,
    pub sched: Sched,
    pub budget: u64,
    #[serde(default)]
    pub error_at_read: Option<u64>,
    /// read from this file instead of the in-memory image (C15)
    #[serde(default)]
    pub spill_path: Option<String>,
    /// authenticated repair: select the mode through the explicit setter
    /// (`failsafe_return_only_authenticated_data`) instead of leaving the configuration untouched
    /// (untouched = what `mlar repair` does, the default)
    #[serde(default)]
    pub explicit_auth_mode: bool,
    /// (offset, length, times): the stream the reader sees is the image with this range of it repeated `times`
    /// times in place - generated on the fly, for streams far larger than memory (C11)
    #[serde(default)]
    pub replay: Option<(u64, u64, u64)>,
}

impl ReadCfg {
    pub fn for_cfg(cfg: &ArcCfg) -> ReadCfg {
        let keys = if cfg.enc() { vec![hex::encode(crate::model::key_bytes(cfg.key_seed, cfg.reader))] } else { vec![] };
        ReadCfg { keys, sched: Sched::Full, budget: u64::MAX / 2, error_at_read: None, spill_path: None, explicit_auth_mode: false, replay: None }
    }
    pub fn key_bytes(&self) -> Vec<[u8; 32]> {
        self.keys
            .iter()
            .map(|h| {
                let mut k = [0u8; 32];
                let v = hex::decode(h).unwrap_or_default();
                let n = v.len().min(32);
                k[..n].copy_from_slice(&v[..n]);
                k
            })
            .collect()
    }
}

#[derive(Serialize, Deserialize, Clone, Debug, PartialEq)]
pub enum ROp {
    List,
    /// open (abandoning any open file)
    Open { name: String },
    /// read into a buffer of n bytes from the open file
    Read { n: usize },
    /// read the open file to its end with buffers of n bytes
    ReadAll { n: usize },
    Hash { name: String },
    /// read until `total` more bytes of the open file were returned (or its end), with buffers of at most n bytes:
    /// how a caller stops exactly at a chosen position
    ReadExact { total: usize, n: usize },
    /// read the open file to its end with buffers of n bytes, keeping only its length and SHA-256 (files too large
    /// to hold in memory)
    ReadAllDigest { n: usize },
    /// one read_vectored call into buffers of these sizes; the result is what the buffers hold up to the returned count
    ReadVectored { sizes: Vec<usize> },
}

#[derive(Clone, Debug, PartialEq)]
pub enum RRes {
    Names(Vec<String>),
    Opened { size: u64 },
    NotFound,
    NoFile,
    Bytes(Vec<u8>),
    Hash([u8; 32]),
    Digest { len: u64, sha: [u8; 32] },
    Err(String),
}

impl RRes {
    pub fn is_err(&self) -> bool {
        matches!(self, RRes::Err(_))
    }
}

#[derive(Debug, Clone)]
pub struct ReadOut {
    pub open: Result<(), String>,
    pub results: Vec<RRes>,
    pub panic: Option<String>,
    pub src: SrcStats,
    pub enc_params: Option<([u8; 32], [u8; 8])>,
}

#[derive(Debug, Clone, PartialEq)]
pub struct RepStatus {
    /// variant name of the (inner) stopping status
    pub stop: String,
    pub detail: String,
    pub unfinished: Option<Vec<String>>,
}

#[derive(Debug, Clone)]
pub struct RepairOut {
    pub init: Result<(), String>,
    pub convert: Option<Result<RepStatus, String>>,
    pub out_image: Vec<u8>,
    pub panic: Option<String>,
    pub src: SrcStats,
}

#[derive(Debug, Clone)]
pub struct LinearOut {
    pub open: Result<(), String>,
    pub result: Option<Result<(), String>>,
    pub got: BTreeMap<String, Vec<u8>>,
    /// bytes each sink accepted (also for sinks that only count)
    pub lens: BTreeMap<String, u64>,
    pub panic: Option<String>,
}

#[derive(Serialize, Deserialize, Clone, Debug, PartialEq)]
pub enum LOp {
    SeekStart { p: u64 },
    /// seek(Current(p - position a cursor would be at)): the adapter tracks that position
    SeekCurTo { p: u64 },
    /// seek(Current(0))
    SeekCur0,
    /// seek(End(p - len))
    SeekEndTo { p: u64 },
    Pos,
    Read { n: usize },
}

#[derive(Clone, Debug, PartialEq)]
pub enum LRes {
    Pos(u64),
    Bytes(Vec<u8>),
    Err(String),
}

#[derive(Debug, Clone)]
pub struct LayerOut {
    pub build: Result<(), String>,
    pub results: Vec<LRes>,
    pub panic: Option<String>,
}

pub trait Sut {
    fn consts(&self) -> &'static VariantConsts;
    fn write(&self, cfg: &ArcCfg, ops: &[WOp], sink: SimSink) -> WriteOut;
    fn read(&self, image: Rc<Vec<u8>>, rcfg: &ReadCfg, ops: &[ROp]) -> ReadOut;
    /// repair into an archive written with `out_layers` (no encryption on output
    /// unless out_cfg has recipients), through a sink with `out_sched`
    fn repair(&self, image: Rc<Vec<u8>>, rcfg: &ReadCfg, auth: bool, out_cfg: &ArcCfg, out_sched: &Sched) -> RepairOut {
        self.repair_into(image, rcfg, auth, out_cfg, SimSink::new(out_sched))
    }
    fn linear(&self, image: Rc<Vec<u8>>, rcfg: &ReadCfg, subset: &[String], sink_sched: &Sched, sink_fail_call: Option<u64>) -> LinearOut {
        self.linear_opts(image, rcfg, subset, sink_sched, sink_fail_call, true)
    }
    /// `keep` = false: the per-file sinks only count (C15)
    fn linear_opts(&self, image: Rc<Vec<u8>>, rcfg: &ReadCfg, subset: &[String], sink_sched: &Sched, sink_fail_call: Option<u64>, keep: bool) -> LinearOut;
    /// repair into a sink supplied by the caller
    fn repair_into(&self, image: Rc<Vec<u8>>, rcfg: &ReadCfg, auth: bool, out_cfg: &ArcCfg, sink: SimSink) -> RepairOut;
    /// Layer reader stack built the way `mlar info` builds it over a whole archive image:
    /// header parsed, raw layer pinned after it, then `depth` of the enabled layers
    /// (encryption first, then compression).
    fn layers(&self, image: Rc<Vec<u8>>, depth: usize, rcfg: &ReadCfg, len: u64, ops: &[LOp]) -> LayerOut;
    /// incremental AES-GCM core: encrypt `msg` split at `cuts`, return (ciphertext, tag)
    fn aesgcm_encrypt_split(&self, key: &[u8; 32], nonce: &[u8; 12], aad: &[u8], msg: &[u8], cuts: &[usize]) -> (Vec<u8>, [u8; 16]);
    /// one-shot decrypt: (plaintext, computed tag)
    fn aesgcm_decrypt(&self, key: &[u8; 32], nonce: &[u8; 12], aad: &[u8], ct: &[u8]) -> (Vec<u8>, [u8; 16]);
    /// install / remove the H2 seed (no-op on `prod`)
    fn set_rng_seed(&self, seed: Option<u64>);
    /// H3 probe counters since last call (empty on `prod`)
    fn take_hits(&self) -> BTreeMap<&'static str, u64>;
}

macro_rules! variant_mod {
    ($m:ident, $krate:ident, $name:expr, $hooks:tt) => {
        pub mod $m {
            #[allow(unused_imports)]
            use $krate as mla;
            pub const VARIANT_NAME: &str = $name;
            variant_mod!(@hooks $hooks);
            include!("sut_body.rs");
        }
    };
    (@hooks true) => {
        fn hook_set_seed(seed: Option<u64>) {
            mla::verif::set_rng_seed(seed);
        }
        fn hook_take_hits() -> std::collections::BTreeMap<&'static str, u64> {
            mla::verif::take_hits()
        }
    };
    (@hooks false) => {
        fn hook_set_seed(_seed: Option<u64>) {}
        fn hook_take_hits() -> std::collections::BTreeMap<&'static str, u64> {
            std::collections::BTreeMap::new()
        }
    };
}

variant_mod!(v_prod, mla_prod, "prod", false);
variant_mod!(v_prodv, mla_prodv, "prodv", true);
variant_mod!(v_s1, mla_s1, "s1", true);
variant_mod!(v_s0, mla_s0, "s0", true);

pub fn sut(variant: &str) -> &'static dyn Sut {
    match variant {
        "prod" => &v_prod::V,
        "prodv" => &v_prodv::V,
        "s1" => &v_s1::V,
        "s0" => &v_s0::V,
        other => panic!("unknown variant {other}"),
    }
}
