//! Workload description (serialisable, shrinkable) and the abstract reference
//! model: a map from name to bytes.
use crate::rng::Rng;
use crate::seams::Sched;
use serde::{Deserialize, Serialize};
use std::collections::BTreeMap;

pub const L_ENC: u8 = 1;
pub const L_COMP: u8 = 2;

#[derive(Serialize, Deserialize, Clone, Debug, PartialEq)]
pub struct ArcCfg {
    pub variant: String,
    /// bit0 encrypt, bit1 compress
    pub layers: u8,
    pub level: u32,
    pub recipients: usize,
    /// index of the recipient who reads
    pub reader: usize,
    /// seed for hook H2 (cfg variants); 0 = leave the OS generator in place
    pub rng_seed: u64,
    /// seed of the recipients' key pairs
    pub key_seed: u64,
}

impl ArcCfg {
    pub fn enc(&self) -> bool {
        self.layers & L_ENC != 0
    }
    pub fn comp(&self) -> bool {
        self.layers & L_COMP != 0
    }
    pub fn layer_name(&self) -> &'static str {
        match self.layers & 3 {
            0 => "none",
            1 => "E",
            2 => "C",
            _ => "CE",
        }
    }
}

/// Deterministic recipient keys: (private bytes) from (key_seed, index)
pub fn key_bytes(key_seed: u64, idx: usize) -> [u8; 32] {
    let mut r = Rng::derive(key_seed, "key", idx as u64, "x25519");
    let mut k = [0u8; 32];
    r.fill(&mut k);
    k
}

#[derive(Serialize, Deserialize, Clone, Debug, PartialEq)]
pub enum Data {
    Zeros { n: usize },
    /// bytes i % p
    Period { n: usize, p: usize },
    /// text-like, compressible
    Text { n: usize, seed: u64 },
    /// incompressible
    Rand { n: usize, seed: u64 },
    Hex { hex: String },
    /// adversarial "block-lookalike" content: PRNG filler in which a well-formed
    /// sequence of file-layer blocks (FileStart "intruder", content, EndOfFile with a
    /// correct hash, EndOfArchiveData) is placed at offsets first + k*period
    Look { n: usize, first: usize, period: usize, seed: u64 },
}

/// The block sequence an attacker-controlled file content carries
pub fn lookalike_blocks() -> Vec<u8> {
    use sha2::Digest;
    let mut v = Vec::new();
    let id: u64 = 0x77;
    v.push(0);
    v.extend_from_slice(&id.to_le_bytes());
    v.extend_from_slice(&8u64.to_le_bytes());
    v.extend_from_slice(b"intruder");
    v.push(1);
    v.extend_from_slice(&id.to_le_bytes());
    v.extend_from_slice(&5u64.to_le_bytes());
    v.extend_from_slice(b"EVIL!");
    v.push(0xFF);
    v.extend_from_slice(&id.to_le_bytes());
    v.extend_from_slice(&sha2::Sha256::digest(b"EVIL!"));
    v.push(0xFE);
    v
}

impl Data {
    pub fn len(&self) -> usize {
        match self {
            Data::Zeros { n } | Data::Period { n, .. } | Data::Text { n, .. } | Data::Rand { n, .. } | Data::Look { n, .. } => *n,
            Data::Hex { hex } => hex.len() / 2,
        }
    }
    pub fn bytes(&self) -> Vec<u8> {
        match self {
            Data::Zeros { n } => vec![0u8; *n],
            Data::Period { n, p } => (0..*n).map(|i| (i % (*p).max(1)) as u8).collect(),
            Data::Text { n, seed } => {
                const WORDS: &[&str] = &["the ", "archive ", "layer ", "block ", "of ", "data ", "mla ", "key ", "\n", "0123 "];
                let mut r = Rng::new(*seed);
                let mut v = Vec::with_capacity(*n + 8);
                while v.len() < *n {
                    v.extend_from_slice(WORDS[r.usize_below(WORDS.len())].as_bytes());
                }
                v.truncate(*n);
                v
            }
            Data::Rand { n, seed } => Rng::new(*seed).bytes(*n),
            Data::Hex { hex } => hex::decode(hex).unwrap_or_default(),
            Data::Look { n, first, period, seed } => {
                let mut v = Rng::new(*seed).bytes(*n);
                // filler must not itself look like a block start at the planted offsets' neighbourhood: keep it as is
                let look = lookalike_blocks();
                let mut at = *first;
                while at < *n {
                    let e = (at + look.len()).min(*n);
                    v[at..e].copy_from_slice(&look[..e - at]);
                    at += (*period).max(1);
                }
                v
            }
        }
    }
    pub fn class(&self) -> &'static str {
        match self {
            Data::Zeros { .. } => "zeros",
            Data::Period { .. } => "period",
            Data::Text { .. } => "text",
            Data::Rand { .. } => "rand",
            Data::Hex { .. } => "hex",
            Data::Look { .. } => "lookalike",
        }
    }
    pub fn with_len(&self, n: usize) -> Data {
        match self {
            Data::Zeros { .. } => Data::Zeros { n },
            Data::Period { p, .. } => Data::Period { n, p: *p },
            Data::Text { seed, .. } => Data::Text { n, seed: *seed },
            Data::Rand { seed, .. } => Data::Rand { n, seed: *seed },
            Data::Hex { hex } => Data::Hex { hex: hex[..(2 * n).min(hex.len())].to_string() },
            Data::Look { first, period, seed, .. } => Data::Look { n, first: *first, period: *period, seed: *seed },
        }
    }
    pub fn make(rng: &mut Rng, n: usize) -> Data {
        match rng.below(5) {
            0 => Data::Zeros { n },
            1 => Data::Period { n, p: *rng.pick(&[1usize, 2, 3, 7, 251, 256]) },
            2 => Data::Text { n, seed: rng.u64() },
            _ => Data::Rand { n, seed: rng.u64() },
        }
    }
}

#[derive(Serialize, Deserialize, Clone, Debug, PartialEq)]
pub enum Name {
    Lit { s: String },
    /// exactly n bytes derived from the seed (for 65536 / 65537-byte names): ASCII letters, or 2-byte / 3-byte
    /// characters padded with ASCII
    Long { n: usize, seed: u64 },
}

impl Name {
    pub fn string(&self) -> String {
        match self {
            Name::Lit { s } => s.clone(),
            Name::Long { n, seed } => {
                let mut r = Rng::new(*seed);
                let mut s = String::with_capacity(*n);
                let tag = format!("L{seed:x}_");
                s.push_str(&tag);
                s.truncate(*n);
                // exactly n BYTES; two seeds in three use 2- or 3-byte characters, so that the number of characters
                // (about n/2, n/3) differs from the number of bytes
                match seed % 3 {
                    1 => {
                        while s.len() + 2 <= *n {
                            s.push(char::from_u32(0xE0 + r.below(30) as u32).unwrap_or('é'));
                        }
                    }
                    2 => {
                        while s.len() + 3 <= *n {
                            s.push(char::from_u32(0x20AC + r.below(16) as u32).unwrap_or('€'));
                        }
                    }
                    _ => {}
                }
                while s.len() < *n {
                    s.push((b'a' + r.below(26) as u8) as char);
                }
                s
            }
        }
    }
    pub fn lit(s: &str) -> Name {
        Name::Lit { s: s.to_string() }
    }
}

/// How the piece source of an append behaves
#[derive(Serialize, Deserialize, Clone, Debug, PartialEq)]
pub struct Src {
    pub sched: Sched,
    /// announced size minus what the source really holds (0 = exact; >0 = short source)
    #[serde(default)]
    pub short_by: usize,
    /// extra bytes the source holds beyond the announced size
    #[serde(default)]
    pub extra: usize,
    /// generate the bytes on the fly instead of materialising the piece (C15: pieces of many MiB
    /// must not sit on the harness' heap); content = PRNG stream for Rand, zeros for Zeros
    #[serde(default)]
    pub stream: bool,
}

impl Src {
    pub fn exact() -> Src {
        Src { sched: Sched::Full, short_by: 0, extra: 0, stream: false }
    }
}

#[derive(Serialize, Deserialize, Clone, Debug, PartialEq)]
pub enum WOp {
    Start { f: usize, name: Name },
    Append { f: usize, data: Data, src: Src },
    End { f: usize },
    Add { name: Name, data: Data, src: Src },
    Flush,
    Finalize,
    /// invalid forms for C09: library-level id used directly
    AppendRaw { id: u64, data: Data },
    EndRaw { id: u64 },
}

impl WOp {
    pub fn short(&self) -> String {
        match self {
            WOp::Start { f, name } => format!("S{f}:{}", trunc(&name.string())),
            WOp::Append { f, data, src } => format!("A{f}:{}{}{}", data.len(), data.class().chars().next().unwrap(), if src.short_by > 0 { "!" } else { "" }),
            WOp::End { f } => format!("E{f}"),
            WOp::Add { name, data, .. } => format!("+{}:{}", trunc(&name.string()), data.len()),
            WOp::Flush => "F".into(),
            WOp::Finalize => "Z".into(),
            WOp::AppendRaw { id, data } => format!("a#{id}:{}", data.len()),
            WOp::EndRaw { id } => format!("e#{id}"),
        }
    }
}

fn trunc(s: &str) -> String {
    if s.len() > 12 {
        let mut e = 12;
        while !s.is_char_boundary(e) {
            e -= 1;
        }
        format!("{}~{}", &s[..e], s.len())
    } else {
        s.to_string()
    }
}

pub fn ops_short(ops: &[WOp]) -> String {
    ops.iter().map(WOp::short).collect::<Vec<_>>().join(" ")
}

// ------------------------------------------------------------------ abstract model

/// Expected content of a finalized archive: names in start order with bytes.
#[derive(Clone, Debug, Default, PartialEq)]
pub struct Model {
    pub files: BTreeMap<String, Vec<u8>>,
    /// start order
    pub order: Vec<String>,
}

/// Interpret *valid* ops (the generators below only emit valid sequences).
/// `upto`: number of ops considered.
pub fn model_of(ops: &[WOp]) -> Model {
    let mut m = Model::default();
    let mut handle: BTreeMap<usize, String> = BTreeMap::new();
    for op in ops {
        match op {
            WOp::Start { f, name } => {
                let n = name.string();
                handle.insert(*f, n.clone());
                m.order.push(n.clone());
                m.files.insert(n, Vec::new());
            }
            WOp::Append { f, data, src } => {
                if let Some(n) = handle.get(f) {
                    let b = data.bytes();
                    let keep = b.len().saturating_sub(src.short_by);
                    m.files.get_mut(n).unwrap().extend_from_slice(&b[..keep]);
                }
            }
            WOp::Add { name, data, src } => {
                let n = name.string();
                m.order.push(n.clone());
                let b = data.bytes();
                let keep = b.len().saturating_sub(src.short_by);
                m.files.insert(n, b[..keep].to_vec());
            }
            WOp::End { .. } | WOp::Flush | WOp::Finalize | WOp::AppendRaw { .. } | WOp::EndRaw { .. } => {}
        }
    }
    m
}

/// Per-file bytes appended up to and including op index `upto` (exclusive end)
pub fn model_prefix(ops: &[WOp], upto: usize) -> Model {
    model_of(&ops[..upto.min(ops.len())])
}

// ------------------------------------------------------------------ generators

pub struct Consts {
    pub cipher_buf: usize,
    pub chunk: usize,
    pub block: usize,
    pub repair_cache: usize,
    pub failsafe_buf: usize,
}

/// Boundary-biased size relative to the variant's constants
pub fn gen_size(rng: &mut Rng, c: &Consts, max: usize) -> usize {
    let bases = [c.cipher_buf, c.chunk, c.chunk + 16, c.block, c.repair_cache, c.failsafe_buf];
    let v = match rng.below(10) {
        0 => 0,
        1 => 1,
        2 => rng.range(2, 40) as usize,
        3 | 4 | 5 => {
            let b = *rng.pick(&bases);
            let k = *rng.pick(&[1usize, 1, 1, 2, 2, 3]);
            let d = *rng.pick(&[-17i64, -16, -2, -1, 0, 0, 1, 2, 15, 16, 17]);
            ((b * k) as i64 + d).max(0) as usize
        }
        6 => rng.range(0, c.chunk as u64 * 3) as usize,
        7 => rng.range(0, c.block as u64 * 2 + 50) as usize,
        _ => rng.range(0, 200) as usize,
    };
    v.min(max)
}

pub fn gen_name(rng: &mut Rng, i: usize) -> Name {
    match rng.below(12) {
        0 => Name::lit(&format!("dir{i}/sub/f{i}.txt")),
        1 => Name::lit(&format!("ünï-çødé-{i}-файл")),
        2 => Name::lit(&format!("{i} with space")),
        3 => Name::lit(&format!("../{i}")),
        _ => Name::lit(&format!("f{i}")),
    }
}

pub struct GenOpts {
    pub max_files: usize,
    pub max_ops: usize,
    pub max_piece: usize,
    pub max_total: usize,
    pub interleave: bool,
    pub flushes: bool,
    pub special_names: bool,
    pub finalize: bool,
    pub piece_scheds: bool,
}

/// A *valid* writer history (every call is expected to succeed)
pub fn gen_ops(rng: &mut Rng, c: &Consts, o: &GenOpts) -> Vec<WOp> {
    let nfiles = rng.range(1, o.max_files as u64) as usize;
    let mut ops = Vec::new();
    let mut started = 0usize;
    let mut open: Vec<usize> = Vec::new();
    let mut total = 0usize;
    let mut used_empty = false;
    let mut used_long = false;
    let class_fixed: Option<Data> = if rng.chance(1, 3) { Some(Data::make(rng, 0)) } else { None };
    let mk_name = |rng: &mut Rng, i: usize, used_empty: &mut bool, used_long: &mut bool| -> Name {
        if o.special_names && !*used_empty && rng.chance(1, 12) {
            *used_empty = true;
            return Name::lit("");
        }
        if o.special_names && !*used_long && rng.chance(1, 40) {
            *used_long = true;
            return Name::Long { n: 65536, seed: rng.u64() };
        }
        gen_name(rng, i)
    };
    let mk_data = |rng: &mut Rng, total: &mut usize| -> Data {
        let room = o.max_total.saturating_sub(*total);
        let n = gen_size(rng, c, o.max_piece.min(room));
        *total += n;
        match &class_fixed {
            Some(d) => match d {
                Data::Rand { .. } => Data::Rand { n, seed: rng.u64() },
                Data::Text { .. } => Data::Text { n, seed: rng.u64() },
                other => other.with_len(n),
            },
            None => Data::make(rng, n),
        }
    };
    let mk_src = |rng: &mut Rng| -> Src {
        if o.piece_scheds && rng.chance(1, 2) {
            Src { sched: Sched::make(rng, false), short_by: 0, extra: if rng.chance(1, 6) { rng.range(1, 20) as usize } else { 0 }, stream: false }
        } else {
            Src::exact()
        }
    };
    while ops.len() < o.max_ops {
        let can_start = started < nfiles;
        if !can_start && open.is_empty() {
            break;
        }
        let r = rng.below(10);
        if can_start && (open.is_empty() || (o.interleave && r < 3) || (!o.interleave && false)) {
            if rng.chance(1, 3) {
                let name = mk_name(rng, started, &mut used_empty, &mut used_long);
                let data = mk_data(rng, &mut total);
                ops.push(WOp::Add { name, data, src: mk_src(rng) });
                started += 1;
            } else {
                let name = mk_name(rng, started, &mut used_empty, &mut used_long);
                ops.push(WOp::Start { f: started, name });
                open.push(started);
                started += 1;
            }
        } else if !open.is_empty() {
            let idx = if o.interleave { rng.usize_below(open.len()) } else { open.len() - 1 };
            let f = open[idx];
            if r < 7 {
                let data = mk_data(rng, &mut total);
                ops.push(WOp::Append { f, data, src: mk_src(rng) });
            } else {
                ops.push(WOp::End { f });
                open.remove(idx);
            }
        }
        if o.flushes && rng.chance(1, 5) {
            ops.push(WOp::Flush);
        }
    }
    // close what is still open
    for f in open {
        ops.push(WOp::End { f });
    }
    if o.finalize {
        ops.push(WOp::Finalize);
    }
    ops
}

/// A valid history with MANY files (tens to hundreds, so that file ids leave the range any small archive has)
/// of which a few are LONG-LIVED: started early, appended to now and then while dozens of other files are
/// started and ended, ended late. Pieces are tiny; the point is the id space and the interleaving distance.
pub fn gen_many_files(rng: &mut Rng, n: usize, long_lived: usize, max_piece: usize) -> Vec<WOp> {
    let mut ops = Vec::new();
    let starts: Vec<usize> = (0..long_lived).map(|k| if k == 0 { 0 } else { rng.usize_below(n) }).collect();
    let mut open: Vec<usize> = Vec::new();
    let piece = |rng: &mut Rng| -> Data {
        let n = if rng.chance(1, 6) { 0 } else { rng.range(1, max_piece.max(1) as u64) as usize };
        Data::Period { n, p: rng.range(1, 250) as usize }
    };
    for i in 0..n {
        if starts.contains(&i) {
            ops.push(WOp::Start { f: i, name: Name::lit(&format!("L{i}")) });
            open.push(i);
            if rng.chance(1, 2) {
                ops.push(WOp::Append { f: i, data: piece(rng), src: Src::exact() });
            }
        } else if rng.chance(1, 3) {
            ops.push(WOp::Add { name: Name::lit(&format!("e{i}")), data: piece(rng), src: Src::exact() });
        } else {
            ops.push(WOp::Start { f: i, name: Name::lit(&format!("e{i}")) });
            if rng.chance(2, 3) {
                ops.push(WOp::Append { f: i, data: piece(rng), src: Src::exact() });
            }
            ops.push(WOp::End { f: i });
        }
        for k in 0..open.len() {
            if rng.chance(1, 10) {
                ops.push(WOp::Append { f: open[k], data: piece(rng), src: Src::exact() });
            }
        }
        if open.len() > 1 && rng.chance(1, 50) {
            let k = rng.usize_below(open.len());
            ops.push(WOp::End { f: open.remove(k) });
        }
    }
    for f in open {
        if rng.chance(3, 4) {
            ops.push(WOp::Append { f, data: piece(rng), src: Src::exact() });
        }
        ops.push(WOp::End { f });
    }
    ops.push(WOp::Finalize);
    ops
}

/// A valid history in which two or three files alternate tiny pieces so that one file ends up with `runs`
/// non-contiguous runs (each run costs an 8-byte offset in the index): counts beyond 255 / 65535.
pub fn gen_many_runs(rng: &mut Rng, runs: usize) -> Vec<WOp> {
    let nf = rng.range(2, 3) as usize;
    let mut ops: Vec<WOp> = (0..nf).map(|f| WOp::Start { f, name: Name::lit(&format!("r{f}")) }).collect();
    for k in 0..runs {
        for f in 0..nf {
            if f == 0 || rng.chance(2, 3) {
                let n = if f > 0 && rng.chance(1, 8) { 0 } else { rng.range(1, 3) as usize };
                ops.push(WOp::Append { f, data: Data::Period { n, p: 1 + (k + f) % 250 }, src: Src::exact() });
            }
        }
    }
    for f in 0..nf {
        ops.push(WOp::End { f });
    }
    ops.push(WOp::Finalize);
    ops
}

/// Recipient counts one or two orders of magnitude above the usual 1..4 (the header then no longer fits a
/// page, the key list no longer a small vector): with probability 1/den on an encrypted configuration.
pub fn maybe_many_recipients(rng: &mut Rng, cfg: &mut ArcCfg, den: u64) {
    if cfg.enc() && rng.chance(1, den) {
        cfg.recipients = *rng.pick(&[17usize, 84, 85, 86, 128, 300, 1000]);
        cfg.reader = match rng.below(3) {
            0 => 0,
            1 => cfg.recipients - 1,
            _ => rng.usize_below(cfg.recipients),
        };
    }
}

pub fn gen_cfg(rng: &mut Rng, variant: &str, hooks: bool) -> ArcCfg {
    let layers = rng.below(4) as u8;
    let recipients = if layers & L_ENC != 0 { rng.range(1, 4) as usize } else { 0 };
    ArcCfg {
        variant: variant.to_string(),
        layers,
        level: rng.below(12) as u32,
        recipients,
        reader: if recipients > 0 { rng.usize_below(recipients) } else { 0 },
        rng_seed: if hooks { rng.u64() | 1 } else { 0 },
        key_seed: rng.u64(),
    }
}

// ------------------------------------------------------------------ stream-length model and alignment solver

/// Length of the file-layer stream (blocks + end marker + index footer) that a VALID,
/// finalized history produces. Mirrors FORMAT.md: FileStart 17+name, FileContent 17+len
/// (none for an empty piece), EndOfFile 41, marker 1, index 8 + sum(8+name+8+8*runs+8+8) + 4,
/// where `runs` = number of continuous runs of the file's blocks.
pub fn stream_len(ops: &[WOp]) -> usize {
    struct F {
        name_len: usize,
        runs: usize,
    }
    let mut files: Vec<F> = Vec::new();
    let mut handle: BTreeMap<usize, usize> = BTreeMap::new();
    let mut current: usize = 0; // the writer starts with current_id = 0
    let mut pos = 0usize;
    let mut finalized = false;
    for op in ops {
        match op {
            WOp::Start { f, name } => {
                let id = files.len();
                handle.insert(*f, id);
                let nl = name.string().len();
                files.push(F { name_len: nl, runs: 1 });
                current = id;
                pos += 17 + nl;
            }
            WOp::Append { f, data, .. } => {
                if let Some(&id) = handle.get(f) {
                    if data.len() > 0 {
                        if id != current {
                            files[id].runs += 1;
                            current = id;
                        }
                        pos += 17 + data.len();
                    }
                }
            }
            WOp::End { f } => {
                if let Some(&id) = handle.get(f) {
                    if id != current {
                        files[id].runs += 1;
                        current = id;
                    }
                    pos += 41;
                }
            }
            WOp::Add { name, data, .. } => {
                let id = files.len();
                let nl = name.string().len();
                files.push(F { name_len: nl, runs: 1 });
                current = id;
                pos += 17 + nl;
                if data.len() > 0 {
                    pos += 17 + data.len();
                }
                pos += 41;
            }
            WOp::Finalize => finalized = true,
            _ => {}
        }
    }
    if finalized {
        pos += 1;
        pos += 8 + files.iter().map(|f| 8 + f.name_len + 8 + 8 * f.runs + 8 + 8).sum::<usize>() + 4;
    }
    pos
}

/// Where each non-empty content piece of a VALID history lies: (file name, offset in the file,
/// offset of its first data byte in the file-layer stream, length). Same arithmetic as `stream_len`.
pub fn content_extents(ops: &[WOp]) -> Vec<(String, usize, usize, usize)> {
    let mut out = Vec::new();
    let mut names: BTreeMap<usize, (String, usize)> = BTreeMap::new();
    let mut pos = 0usize;
    for op in ops {
        match op {
            WOp::Start { f, name } => {
                let n = name.string();
                pos += 17 + n.len();
                names.insert(*f, (n, 0));
            }
            WOp::Append { f, data, .. } => {
                if let Some((n, off)) = names.get_mut(f) {
                    if data.len() > 0 {
                        out.push((n.clone(), *off, pos + 17, data.len()));
                        *off += data.len();
                        pos += 17 + data.len();
                    }
                }
            }
            WOp::End { f } => {
                if names.contains_key(f) {
                    pos += 41;
                }
            }
            WOp::Add { name, data, .. } => {
                let n = name.string();
                pos += 17 + n.len();
                if data.len() > 0 {
                    out.push((n, 0, pos + 17, data.len()));
                    pos += 17 + data.len();
                }
                pos += 41;
            }
            _ => {}
        }
    }
    out
}

/// Grow one non-empty piece so that the file-layer stream length becomes `residue` modulo
/// `modulus` (how "plaintext length = k * CHUNK" or "= k * BLOCK" is hit on purpose instead
/// of once in 131072 / 4194304). Returns false if the history has no non-empty piece.
pub fn align_stream(ops: &mut [WOp], modulus: usize, residue: usize) -> bool {
    let cur = stream_len(ops) % modulus;
    let d = (residue % modulus + modulus - cur) % modulus;
    if d == 0 {
        return true;
    }
    for op in ops.iter_mut().rev() {
        if let WOp::Append { data, src, .. } | WOp::Add { data, src, .. } = op {
            if data.len() > 0 && src.short_by == 0 {
                *data = data.with_len(data.len() + d);
                return true;
            }
        }
    }
    false
}
