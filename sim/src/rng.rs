//! The only source of randomness of the simulator: xoshiro256** seeded through
//! SplitMix64 from (VERIF_SEED, property, run index, stream label).

#[derive(Clone, Debug)]
pub struct Rng {
    s: [u64; 4],
}

fn splitmix(x: &mut u64) -> u64 {
    *x = x.wrapping_add(0x9E37_79B9_7F4A_7C15);
    let mut z = *x;
    z = (z ^ (z >> 30)).wrapping_mul(0xBF58_476D_1CE4_E5B9);
    z = (z ^ (z >> 27)).wrapping_mul(0x94D0_49BB_1331_11EB);
    z ^ (z >> 31)
}

pub fn fnv(bytes: &[u8]) -> u64 {
    let mut h: u64 = 0xcbf2_9ce4_8422_2325;
    for b in bytes {
        h ^= u64::from(*b);
        h = h.wrapping_mul(0x0000_0100_0000_01B3);
    }
    h
}

impl Rng {
    pub fn new(seed: u64) -> Self {
        let mut x = seed;
        let s = [splitmix(&mut x), splitmix(&mut x), splitmix(&mut x), splitmix(&mut x)];
        Rng { s }
    }

    /// Independent sub-stream per (seed, property, run, label)
    pub fn derive(seed: u64, prop: &str, run: u64, label: &str) -> Self {
        let mut x = seed ^ fnv(prop.as_bytes()).rotate_left(17);
        let a = splitmix(&mut x);
        let mut y = a ^ run.wrapping_mul(0xD6E8_FEB8_6659_FD93);
        let b = splitmix(&mut y);
        Rng::new(b ^ fnv(label.as_bytes()).rotate_left(31))
    }

    pub fn sub(&mut self, label: &str) -> Self {
        let v = self.u64();
        Rng::new(v ^ fnv(label.as_bytes()))
    }

    pub fn u64(&mut self) -> u64 {
        let r = self.s[1].wrapping_mul(5).rotate_left(7).wrapping_mul(9);
        let t = self.s[1] << 17;
        self.s[2] ^= self.s[0];
        self.s[3] ^= self.s[1];
        self.s[1] ^= self.s[2];
        self.s[0] ^= self.s[3];
        self.s[2] ^= t;
        self.s[3] = self.s[3].rotate_left(45);
        r
    }

    /// uniform in 0..n (n > 0)
    pub fn below(&mut self, n: u64) -> u64 {
        debug_assert!(n > 0);
        // multiply-shift; bias is irrelevant here
        ((u128::from(self.u64()) * u128::from(n)) >> 64) as u64
    }

    /// uniform in a..=b
    pub fn range(&mut self, a: u64, b: u64) -> u64 {
        a + self.below(b - a + 1)
    }

    pub fn usize_below(&mut self, n: usize) -> usize {
        self.below(n as u64) as usize
    }

    /// true with probability num/den
    pub fn chance(&mut self, num: u64, den: u64) -> bool {
        self.below(den) < num
    }

    pub fn pick<'a, T>(&mut self, xs: &'a [T]) -> &'a T {
        &xs[self.usize_below(xs.len())]
    }

    pub fn fill(&mut self, buf: &mut [u8]) {
        for c in buf.chunks_mut(8) {
            let v = self.u64().to_le_bytes();
            c.copy_from_slice(&v[..c.len()]);
        }
    }

    pub fn bytes(&mut self, n: usize) -> Vec<u8> {
        let mut v = vec![0u8; n];
        self.fill(&mut v);
        v
    }
}
